# -*- coding: utf-8 -*-
"""
C06 - Time-varying coefficients are sampled once per output sample.

Engine B: the input and every coefficient stream of a causal filter are
simulator-owned readers (SimSource) with their own seeded length (EOF fault)
or endless; the consumer pulls outputs in seeded granularity.  Every run is a
pair of identical builds: build A is only inspected (the filter's own
coefficient sequences), build B is run with read accounting.

  (0) construction: a single filter's coefficient sequences are the given ones
  (1) system:  a0[n] y[n] = sum b_k[n] x[n-k] - sum_{k>=1} a_k[n] y[n-k]
               in Fraction arithmetic on the filter's own sequences
  (2) algebra: at every n the composite equals, as a rational function, the
               sum / product / scaling of the operands' values at n
  (3) accounting: after output n every reader delivered exactly n+1 items
  (4) end: exactly min(lengths) outputs, then StopIteration; a reader may have
           delivered one item beyond, never more
  (5) a constant replaced by a constant stream gives the same output
"""
import json
from fractions import Fraction

from ..dataflow import SimSource, SimStall
from ..kernel import (Property, RunResult, Violation, stable_hash,
                      digest_events)
from .util import drop_candidates

HORIZON = 14          # samples inspected of endless readers


def fval(c):
  """ The value of a floating point / complex / exact rational constant spec
  ["f", x]  (x: a float, [re, im], or {"q": [numerator, denominator]}). """
  if isinstance(c[1], dict):
    return Fraction(*c[1]["q"])
  return complex(*c[1]) if isinstance(c[1], list) else c[1]


def close(a, b, scale=1):
  """ Equal, or within 1e-9 of the largest magnitude seen so far in the run
  (computed in exact rational arithmetic: nothing overflows). """
  if isinstance(a, complex) or isinstance(b, complex):
    try:
      return abs(complex(a) - complex(b)) <= 1e-9 * max(
        1.0, abs(complex(b)), float(scale))
    except OverflowError:
      return True
  if a == b:
    return True
  # (also between exact values: a filter that went through one floating
  # point operation and holds "exact" copies of rounded numbers is not wrong
  # for that; every genuine mistake is off by far more than 1e-9 here, the
  # coefficients and samples being small rationals)
  try:
    fa, fb = Fraction(a), Fraction(b)
  except TypeError:                        # not a number at all
    return False
  except (OverflowError, ValueError):      # inf / nan out of float overflow
    return abs(Fraction(b)) > 10 ** 290 if not isinstance(b, float) else True
  return abs(fa - fb) <= Fraction(1, 10 ** 9) * max(1, abs(fb), scale)


def psame(p, q):
  """ Two polynomials (dict power -> coefficient) are the same: exactly when
  everything is exact; when a coefficient is a float or complex (a filter
  that computes in floating point is not wrong for that), within 1e-9 of the
  largest coefficient. """
  vals = list(p.values()) + list(q.values())
  if p == q:
    return True
  scale = max([1] + [abs(v) for v in vals])
  for k in set(p) | set(q):
    if not close(p.get(k, 0), q.get(k, 0), scale):
      return False
  return True


def all_close(xs, ys):
  if len(xs) != len(ys):
    return False
  scale = 1
  for a, b in zip(xs, ys):
    scale = max(scale, abs(b) if isinstance(b, complex)
                else abs(Fraction(b)))
    if not close(a, b, scale):
      return False
  return True


INSPECT = ("is_lti", "is_causal", "numlist", "denlist", "numdict", "dendict",
           "numerator", "denominator", "numpoly", "denpoly")


class _Mismatch(Exception):
  def __init__(self, what, detail):
    Exception.__init__(self, detail)
    self.what, self.detail = what, detail


# value mode of the current run (set from the workload at the start of every
# run): 0 = positive values only; 1 = signed values, zeros in the input and
# in the coefficient streams listed (numerator-only streams of filters that
# are never divided by)
_VM = {"mode": 0, "zeros": frozenset()}


def src_value(sid, i):
  v = Fraction(1 + ((sid * 7 + i * 3) % 11), 1 + (sid % 3))
  if _VM["mode"]:
    if sid in _VM["zeros"] and i % 4 == 2:
      return Fraction(0)
    if (sid + i) % 3 == 0:
      return -v
  return v


def x_value(i):
  v = Fraction(2 * i + 1, 1 + (i % 2))
  if _VM["mode"]:
    if i % 5 == 3:
      return Fraction(0)
    if i % 3 == 1:
      return -v
  return v


# -- tiny exact polynomial helpers (dict power -> Fraction)
def padd(p, q):
  out = dict(p)
  for k, v in q.items():
    out[k] = out.get(k, 0) + v
  return dict((k, v) for k, v in out.items() if v != 0)


def pmul(p, q):
  out = {}
  for k1, v1 in p.items():
    for k2, v2 in q.items():
      out[k1 + k2] = out.get(k1 + k2, 0) + v1 * v2
  return dict((k, v) for k, v in out.items() if v != 0)


def pscale(c, p):
  return dict((k, c * v) for k, v in p.items() if c * v != 0)


def has_sum(t):
  """ Does the tree contain an operation with two natural results? """
  if t["op"] in ("add", "sub", "addc", "copyadd", "dupscale"):
    return True
  return any(has_sum(t[k]) for k in ("a", "b") if k in t)


class C06(Property):
  id = "C06"
  engine = "dataflow"
  rule = ("seeded causal filters (numerator order <= 3, denominator order <= "
          "2, any subset of coefficients incl. a0 being Streams over "
          "simulator-owned readers; built as Stream*z**-k expressions, "
          "ZFilter(lists), 1 - Stream*z**-1 quotients; single, sum, product, "
          "scaled by constant or Stream) with per-reader seeded EOF or "
          "endless readers and seeded demand granularity. distinct = "
          "distinct (filter tree, lengths, demand) digest; non-trivial = at "
          "least one Stream coefficient and (a reader ended first or a "
          "stream feeds >= 2 product terms or a0 is a Stream)")
  components = {"real": ["audiolazy.lazy_filters.ZFilter / LinearFilter."
                         "__call__ (generated generator)",
                         "audiolazy.lazy_poly.Poly arithmetic (thub "
                         "accounting)", "audiolazy.lazy_stream.Stream / "
                         "StreamTeeHub"],
                "stub": ["input and coefficient readers: SimSource with read "
                         "accounting and seeded EOF"]}
  assumptions = [
    "constants are integers, exact rationals and (single filters) floats / "
    "complex numbers; stream and input values are exact Fractions - "
    "positive, or (a quarter of the runs) signed with zeros in the input "
    "and in numerator-only coefficient streams; zero=Fraction(0) is passed",
    "a generated filter whose coefficients all came out as plain constants "
    "is LTI, outside the statement: run, not judged",
    "every constant coefficient is non-zero and every numerator non-empty, "
    "so every stream given to the algebra is actually used",
    "the output of a filter is fixed given ITS coefficient streams; the "
    "algebra is fixed up to rational-function equality at every n (the "
    "equal-denominator shortcut of ZFilter.__add__ is a different but "
    "allowed representation)"]

  def setup(self):
    from audiolazy import lazy_filters, lazy_stream
    self.lf = lazy_filters
    self.ls = lazy_stream
    import sys
    sys.unraisablehook = lambda *a: None

  def budget(self, tier):
    return (200000, 60.0) if tier == "quick" else (12000000, 780.0)

  # ---------------------------------------------------------------- workload
  def gen_workload(self, W, index):
    ctr = [0]

    def coeff(allow_zero_const=False, p_stream=(1, 3)):
      if W.chance("is-stream", *p_stream):
        ctr[0] += 1
        if W.chance("periodic", 1, 8):
          # a raw periodic Stream(v0, v1, ...) (not simulator-owned: no read
          # accounting, values only), already advanced by some items when
          # the filter gets it
          return ["p", ctr[0], W.span("period", 1, 4), W.choose("adv", 6)]
        how = W.weighted("how", [(6, None), (1, "hub1"), (1, "raw")])
        if how == "raw" and shape != "single":
          how = None    # a bare iterator cannot be copied: no algebra on it
        return ["s", ctr[0]] if how is None else ["s", ctr[0], how]
      c = W.pick("const", [1, -1, 2, 3, -2, 5])
      if shape == "single" and W.chance("float-constant", 1, 12):
        # a floating point constant, in particular one very close to +-1
        # (single filters only: outputs are then compared with a relative
        # tolerance of 1e-9, the model stays exact)
        if W.chance("rational-constant", 1, 3):
          # an exact rational that is not an integer (as a0 too)
          return ["f", {"q": W.pick("qconst", [[1, 3], [-2, 3], [3, 2],
                                               [1, 2], [-5, 4]])}]
        if W.chance("complex-constant", 1, 4):
          # a complex constant: stored as [re, im] (JSON), outputs complex
          return ["f", W.pick("zconst", [[1, 2], [2, -1], [-1, 2], [0, 1],
                                         [0.5, -0.5]])]
        return ["f", W.pick("fconst", [1 - 1e-7, 1 + 1e-7, -(1 + 1e-7),
                                       1 + 2.0 ** -40, 0.5, -0.75, 1.25])]
      if W.chance("control-stream", 1, 14):
        # a ControlStream object (a Stream subclass) as the coefficient,
        # possibly shaped in place by map() / limit() before it is handed
        # over: [value, length or None, mapped]
        return ["k", c, W.pick("ktimes", [None, None, 0, 1, 3, 6, 10]),
                bool(W.choose("kmapped", 2))]
      if W.chance("finite-constant-stream", 1, 12):
        # a constant given as a FINITE constant stream, itertools.repeat
        return ["r", c, W.choose("times", 11)]
      return ["c", c]

    shape = None

    def single():
      route = W.weighted("route", [(6, "expr"), (4, "lists"), (4, "quot"),
                                   (2, "dicts"), (1, "proto")])
      nnum = W.span("nnum", 1, 4)
      powers = sorted(set(W.choose("pow", 4) for _ in range(nnum)))
      num = [[k, coeff()] for k in powers]
      nden = W.choose("nden", 3)
      dpow = sorted(set(1 + W.choose("dpow", 2) for _ in range(nden)))
      den = [[0, coeff(p_stream=(1, 4))]] + [[k, coeff()] for k in dpow]
      if route == "quot":
        den[0] = [0, ["c", 1]]
      return {"op": "single", "route": route, "num": num, "den": den}

    shape = W.weighted("shape", [(4, "single"), (2, "add"), (2, "mul"),
                                 (2, "scale"), (1, "add3"), (1, "mulscale"),
                                 (1, "sub"), (1, "neg"), (1, "div"),
                                 (2, "pow"), (2, "addc"), (2, "dupscale"),
                                 (1, "copyadd"), (1, "copymul"),
                                 (2, "zeronum"), (2, "cascade"),
                                 (1, "parallel"), (2, "divterm"),
                                 (2, "sharedhub"), (1, "linearize"),
                                 (2, "fraclin"), (2, "polydiv"),
                                 (2, "subst"),
                                 (1, "copyonly")])
    if shape == "zeronum":
      # free response: empty numerator, feedback only (needs a delay term)
      tree = single()
      tree["route"] = "lists"
      tree["num"] = []
      if len(tree["den"]) < 2:
        tree["den"].append([1 + W.choose("dpow", 2), coeff(p_stream=(1, 2))])
    elif shape == "single":
      tree = single()
    elif shape in ("add", "mul"):
      tree = {"op": shape, "a": single(), "b": single()}
      if shape == "mul" and W.chance("matching-num-den", 1, 3):
        # a constant polynomial that is the numerator of one factor and the
        # denominator of the other (cancelling it is only valid for LTI)
        poly = [[0, ["c", W.pick("mc0", [1, 2, -1])]],
                [1 + W.choose("mk", 2), ["c", W.pick("mc1", [3, -2, 1])]]]
        tree["a"]["num"] = [list(x) for x in poly]
        tree["b"]["den"] = [list(x) for x in poly]
        if tree["b"]["route"] == "quot":
          tree["b"]["route"] = "expr"
        if tree["a"]["route"] == "lists":
          tree["a"]["route"] = "expr"
      if shape == "add" and W.chance("same-den", 1, 3):
        # equal constant denominators: the shortcut of ZFilter.__add__
        tree["b"]["den"] = [[k, ["c", c[1]] if c[0] == "c" else ["c", 2]]
                            for k, c in tree["a"]["den"]]
        tree["a"]["den"] = [list(x) for x in tree["b"]["den"]]
    elif shape == "addc":
      tree = {"op": "addc", "a": single(), "c": coeff(p_stream=(1, 3)),
              "how": W.pick("how", ["f+c", "c+f", "f-c", "c-f"])}
    elif shape == "dupscale":
      # the same filter object scaled twice and recombined: supported when
      # only its denominator holds Streams (equal-denominator shortcut)
      a = single()
      a["num"] = [[k, ["c", 1 + (k % 3)]] for k, _ in a["num"]]
      tree = {"op": "dupscale", "a": a,
              "c1": W.pick("c1", [3, 2, -1, 5]), "c2": W.pick("c2", [4, 7, -6]),
              "how": W.pick("dhow", ["+", "-"])}     # c1 +- c2 is never 0
    elif shape in ("copyadd", "copymul"):
      a = single()
      a["num"], a["den"] = a["num"][:2], a["den"][:2]
      tree = {"op": shape, "a": a}
    elif shape == "sharedhub":
      # the user shares ONE stream between numerator and denominator (and
      # possibly twice in the numerator) through thub(stream, n)
      def hubbed():
        t = single()
        t["route"] = W.pick("hroute", ["expr", "lists"])
        ctr[0] += 1
        hub = ["h", ctr[0]]
        t["num"][0] = [t["num"][0][0], hub]
        if len(t["den"]) < 2:
          t["den"].append([1, hub])
        else:
          t["den"][-1] = [t["den"][-1][0], hub]
        if len(t["num"]) > 1 and W.chance("third-use", 1, 2):
          t["num"][-1] = [t["num"][-1][0], hub]
        return t
      tree = hubbed()
      wrap = W.weighted("hubwrap", [(3, None), (1, "copyadd"), (1, "copymul"),
                                    (1, "pow")])
      if wrap:
        # ... and then copies that filter (copy(), a sum, a power)
        tree["num"], tree["den"] = tree["num"][:2], tree["den"][:2]
        tree = {"op": wrap, "a": tree}
        if wrap == "pow":
          tree["n"] = W.pick("hexp", [2, 3])
    elif shape == "fraclin":
      # fractional delays (z ** -1.5), made causal-with-integer-delays by
      # linearize(): every such term is split over the two neighbouring
      # integer delays, its coefficient stream is then needed twice
      a = single()
      a["route"] = "expr"
      a["num"] = [[k + W.pick("frac", [0, 0.5, 0.25, 0.75]), c]
                  for k, c in a["num"]]
      a["num"].append([max(k for k, _ in a["num"]) + 1.5,
                       coeff(p_stream=(1, 1))])
      tree = {"op": "fraclin", "a": a}
      if W.chance("near-integer-delays", 1, 3):
        # two fractional delays one float rounding step apart, the whole
        # filter then delayed by a further fraction so that one of the two
        # lands exactly on an integer delay and the other right beside it:
        # (g1 z^-0.8999999999999999 + g2 z^-0.9) z^-0.1 - still two terms
        ka, kb, post = W.pick("near", [[0.9, 0.8999999999999999, 0.1],
                                       [2.8, 2.8000000000000003, 0.2],
                                       [0.8999999999999999, 0.9, 0.1]])
        a["num"] = [[ka, coeff(p_stream=(1, 1))], [kb, coeff(p_stream=(3, 4))]]
        a["num"].sort(key=lambda kc: kc[0])
        tree["post"] = post
    elif shape in ("linearize", "copyonly"):
      tree = {"op": shape, "a": single()}
    elif shape in ("cascade", "parallel"):
      tree = {"op": shape, "a": single(), "b": single()}
    elif shape == "divterm":
      # division by a single delayed (possibly time-varying) term
      dk = 1 + W.choose("dk", 2)
      a = single()
      a["route"] = "expr"
      a["num"] = [[k + dk, c] for k, c in a["num"][:3]]    # stays causal
      tree = {"op": "div", "a": a,
              "b": {"op": "single", "route": "expr",
                    "num": [[dk, coeff(p_stream=(2, 3))]],
                    "den": [[0, ["c", 1]]]}}
    elif shape == "polydiv":
      # the numerator polynomial of a filter divided, as a Poly, by a
      # one-term Poly whose coefficient is a Stream (g * x**d): every term
      # of the numerator is divided by that same stream
      dk = W.choose("pdk", 3)
      a = single()
      a["num"] = [[k + dk, c] for k, c in a["num"]]        # stays causal
      tree = {"op": "polydiv", "a": a, "d": dk,
              "c": coeff(p_stream=(4, 5))}
      if tree["c"][0] not in ("s", "c"):
        ctr[0] += 1
        tree["c"] = ["s", ctr[0]]
    elif shape == "subst":
      # substitution f(g) with g = c[n] * z, a time-varying gain on z: every
      # term v_k z^-k of f becomes v_k c[n]^-k z^-k - the one object g is
      # needed once per term of f
      a = single()
      if a["route"] == "quot":
        a["route"] = "expr"
      if all(k == 0 for k, _ in a["num"] + a["den"]):
        # g ** 0 is 1: with z**0 terms only the gain would not be used
        a["num"].append([1 + W.choose("spow", 2), coeff()])
      ctr[0] += 1
      tree = {"op": "subst", "a": a, "c": ["s", ctr[0]]}
    elif shape == "sub":
      tree = {"op": "sub", "a": single(), "b": single()}
    elif shape == "neg":
      tree = {"op": "neg", "a": single()}
    elif shape == "div":
      b = single()
      if b["num"][0][0] != 0:          # divisor needs a z**0 numerator term
        b["num"].insert(0, [0, coeff()])
      tree = {"op": "div", "a": single(), "b": b}
    elif shape == "pow":
      a = single()
      a["num"], a["den"] = a["num"][:2], a["den"][:2]
      tree = {"op": "pow", "a": a, "n": W.pick("exp", [2, 3, 3, 4, -1, -2])}
      if tree["n"] < 0 and a["num"][0][0] != 0:
        a["num"].insert(0, [0, coeff()])   # the inverse must stay causal
        a["num"] = a["num"][:2]
      if tree["n"] < 0 and len(a["num"]) < 2:
        # single-term constants would be raised to a negative power in
        # floating point (int ** -2): keep exact arithmetic
        a["num"].append([a["num"][-1][0] + 1, coeff()])
    elif shape == "scale":
      tree = {"op": "scale", "c": coeff(p_stream=(1, 2)), "a": single(),
              "side": W.pick("side", ["l", "r"])}
    elif shape == "add3":
      tree = {"op": "add", "a": {"op": "mul", "a": single(), "b": single()},
              "b": single()}
    else:
      tree = {"op": "mul", "a": {"op": "scale", "c": coeff(p_stream=(1, 2)),
                                 "a": single(), "side": "l"}, "b": single()}
    lens = {}
    for sid in range(1, ctr[0] + 1):
      lens[str(sid)] = None if W.chance("endless", 1, 3) else \
        W.choose("slen", 11)
    xlen = None if W.chance("x-endless", 1, 4) else W.choose("xlen", 11)
    if xlen is None and all(v is None for v in lens.values()):
      xlen = W.choose("xlen", 11)
    if W.chance("long-run", 1, 300) and '["f",' not in json.dumps(tree):
      # hundreds of samples: whatever the generated code or the algebra
      # accumulates or switches over to after a warm-up
      lens = dict((k, None if v is None or W.chance("lr-endless", 1, 2)
                   else 250 + 20 * v) for k, v in lens.items())
      xlen = 300 + W.choose("lr-x", 200)
    if shape == "single" and W.chance("long-lag", 1, 25):
      # sparse high delays: every numerator term delayed by more than 32
      # samples, and a run long enough to get past that delay
      lag = W.span("lag", 33, 44)
      tree["num"] = [[k + lag, c] for k, c in tree["num"]]
      lens = dict((k, None if v is None or W.chance("ll-endless", 1, 2)
                   else lag + 2 + v) for k, v in lens.items())
      xlen = lag + 3 + W.choose("ll-x", 9)
    vmode, zero_sids = 0, []
    if W.chance("signed-values", 1, 4):
      # negative values, zeros in the input, and zeros at some samples of
      # coefficient streams that only ever multiply (numerator terms of
      # filters nothing is divided by)
      vmode = 1
      if shape in ("single", "add", "mul", "scale", "add3", "mulscale",
                   "sub", "neg", "addc", "cascade", "parallel", "fraclin",
                   "copyadd", "copymul", "copyonly", "linearize"):
        zero_sids = self.numerator_only_sids(tree)
    return {"tree": tree, "lens": lens, "xlen": xlen,
            "vmode": vmode, "zero_sids": zero_sids,
            "cstream": W.choose("cstream", 4),
            # hashing a filter (set member, dict key) before it is called
            "hash_first": W.chance("hash", 1, 6),
            # read-only questions asked before the call: none may consume
            # anything from a coefficient stream
            "inspect_first": [nm for nm in INSPECT
                              if W.chance("inspect", 1, 8)],
            "memory": shape == "zeronum" or W.chance("memory", 1, 4),
            # a decoy filter is built and called first: the same tree with
            # another constant a0 / other constants (state kept across
            # separate filter objects - a cache keyed on part of a filter -
            # shows inside this very run)
            "decoy": W.pick("decoy", [None, None, "a0", "consts"]),
            # clause (6): a second filter derived from this one (3*f, -f)
            # while both read their coefficient streams through 2-use hubs;
            # both are called, in this order / interleaved
            "sibling": [W.pick("sib", ["scale3", "neg", "rscale3", "same",
                                       "copy"]),
                        W.pick("sibord", ["g-f", "f-g", "mixed"])]
            if W.chance("sibling", 1, 2) else None}

  def shrink_candidates(self, wl):
    t = wl["tree"]
    if t["op"] != "single":
      for sub in ("a", "b"):
        if sub in t:
          c = dict(wl)
          c["tree"] = t[sub]
          yield c
    if t["op"] == "single":
      for part in ("num", "den"):
        lst = t[part]
        for i in range(len(lst)):
          if part == "den" and lst[i][0] == 0:
            continue
          if part == "num" and len(lst) == 1:
            continue
          c = dict(wl)
          c["tree"] = dict(t)
          c["tree"][part] = lst[:i] + lst[i + 1:]
          yield c
        for i in range(len(lst)):
          if lst[i][1][0] == "s":
            c = dict(wl)
            c["tree"] = dict(t)
            c["tree"][part] = [list(e) for e in lst]
            c["tree"][part][i] = [lst[i][0], ["c", 2]]
            yield c
    for key in sorted(wl["lens"]):
      v = wl["lens"][key]
      for nv in ([6] if v is None else [x for x in (0, v // 2, v - 1)
                                        if 0 <= x < v]):
        c = dict(wl)
        c["lens"] = dict(wl["lens"])
        c["lens"][key] = nv
        yield c
    if wl["xlen"] is None:
      c = dict(wl)
      c["xlen"] = 6
      yield c
    elif wl["xlen"] > 0:
      for nv in (0, wl["xlen"] // 2, wl["xlen"] - 1):
        if nv < wl["xlen"]:
          c = dict(wl)
          c["xlen"] = nv
          yield c

  def corpus(self):
    S = lambda i: ["s", i]
    C = lambda v: ["c", v]

    def single(num, den=None, route="expr"):
      return {"op": "single", "route": route, "num": num,
              "den": den or [[0, C(1)]]}
    return [
      # a coefficient stream ends before the input (the section-5 defect)
      {"tree": single([[0, C(1)], [1, S(1)]]), "lens": {"1": 3}, "xlen": 8,
       "cstream": 0},
      {"tree": single([[0, C(2)]], [[0, C(1)], [1, S(1)]], "quot"),
       "lens": {"1": 2}, "xlen": None, "cstream": 1},
      {"tree": single([[0, S(1)], [2, C(3)]], [[0, S(2)], [1, C(-1)]],
                      "lists"), "lens": {"1": None, "2": 4}, "xlen": 9,
       "cstream": 2},
      # the input ends first
      {"tree": single([[1, S(1)]], [[0, C(2)], [2, S(2)]]),
       "lens": {"1": None, "2": 9}, "xlen": 4, "cstream": 0},
      # a stream needed by several product terms
      {"tree": {"op": "mul", "a": single([[0, S(1)], [1, C(2)]]),
                "b": single([[0, C(1)], [1, C(3)], [2, S(2)]],
                            [[0, C(1)], [1, S(3)]])},
       "lens": {"1": 7, "2": None, "3": 5}, "xlen": None, "cstream": 0},
      {"tree": {"op": "add", "a": single([[0, S(1)]], [[0, C(2)], [1, C(1)]]),
                "b": single([[1, S(2)]], [[0, C(2)], [1, C(1)]])},
       "lens": {"1": 6, "2": 6}, "xlen": 6, "cstream": 0},
      {"tree": single([], [[0, C(2)], [1, S(1)], [2, C(-1)]], "lists"),
       "lens": {"1": 6}, "xlen": None, "cstream": 0, "memory": True},
      {"tree": single([[0, C(1)]], [[0, S(1)], [1, C(3)]], "lists"),
       "lens": {"1": None}, "xlen": 5, "cstream": 1, "memory": True},
      {"tree": {"op": "addc", "how": "f+c", "c": C(2),
                "a": single([[0, C(1)]], [[0, C(1)], [1, S(1)]], "quot")},
       "lens": {"1": None}, "xlen": 9, "cstream": 0},
      {"tree": {"op": "dupscale", "how": "+", "c1": 3, "c2": 2,
                "a": single([[0, C(1)], [1, C(2)]], [[0, C(1)], [1, S(1)]])},
       "lens": {"1": 8}, "xlen": None, "cstream": 0},
      {"tree": {"op": "copymul",
                "a": single([[0, S(1)], [1, C(2)]], [[0, C(1)], [1, S(2)]])},
       "lens": {"1": None, "2": None}, "xlen": 8, "cstream": 0},
      {"tree": single([[0, ["h", 1]], [1, C(2)], [2, ["h", 1]]],
                      [[0, C(1)], [1, ["h", 1]]]),
       "lens": {"1": 9}, "xlen": None, "cstream": 0},
      {"tree": {"op": "mul",
                "a": single([[0, C(1)], [1, C(-2)]], [[0, C(1)], [1, S(1)]]),
                "b": single([[0, C(2)], [2, S(2)]], [[0, C(1)], [1, C(-2)]])},
       "lens": {"1": None, "2": None}, "xlen": 9, "cstream": 0},
      {"tree": {"op": "copyadd",
                "a": single([[0, ["h", 1]], [2, ["h", 1]]],
                            [[0, C(1)], [1, C(2)]], "lists")},
       "lens": {"1": None}, "xlen": 8, "cstream": 0},
      {"tree": single([[0, C(1)], [1, C(2)]], [[0, S(1)], [1, C(-1)]],
                      "lists"),
       "lens": {"1": None}, "xlen": 7, "cstream": 0, "hash_first": True},
      {"tree": {"op": "cascade", "a": single([[1, S(1)]]),
                "b": single([[1, S(2)], [2, C(1)]])},
       "lens": {"1": None, "2": 9}, "xlen": None, "cstream": 0},
      {"tree": {"op": "parallel", "a": single([[0, S(1)]], [[0, C(1)],
                                                            [1, S(2)]]),
                "b": single([[1, C(2)]])},
       "lens": {"1": 7, "2": None}, "xlen": None, "cstream": 0},
      {"tree": {"op": "div", "a": single([[1, C(1)], [2, C(2)], [3, S(1)]]),
                "b": single([[1, S(2)]])},
       "lens": {"1": None, "2": 8}, "xlen": 9, "cstream": 0},
      {"tree": {"op": "pow", "n": 3,
                "a": single([[0, S(1)], [1, C(2)]], [[0, C(1)], [1, S(2)]])},
       "lens": {"1": None, "2": 9}, "xlen": 7, "cstream": 0},
      {"tree": {"op": "div", "a": single([[0, C(1)], [1, S(1)]]),
                "b": single([[0, C(2)], [1, S(2)]], [[0, C(1)], [2, C(3)]])},
       "lens": {"1": 8, "2": None}, "xlen": None, "cstream": 0},
      {"tree": {"op": "sub", "a": single([[0, S(1)]], [[0, C(1)], [1, C(2)]]),
                "b": single([[1, C(3)]], [[0, S(2)]])},
       "lens": {"1": None, "2": None}, "xlen": 6, "cstream": 0},
      {"tree": {"op": "scale", "c": S(1), "side": "l",
                "a": single([[0, C(1)], [1, C(-1)]], [[0, S(2)], [1, C(2)]])},
       "lens": {"1": None, "2": None}, "xlen": 7, "cstream": 3},
    ]

  def extra_schedules(self):
    return 4

  # ------------------------------------------------------------ construction
  @staticmethod
  def decoy_tree(t, how):
    """ The same tree with other constants (see "decoy"). """
    if isinstance(t, dict):
      out = dict((k, C06.decoy_tree(v, how)) for k, v in t.items())
      if t.get("op") == "single" and how == "a0":
        out["den"] = [[k, (["c", 2 if c[1] == 1 else 1]
                           if k == 0 and c[0] == "c" else c)]
                      for k, c in out["den"]]
      return out
    if isinstance(t, list):
      if how == "consts" and len(t) == 2 and t[0] == "c" and \
         isinstance(t[1], int):
        return ["c", t[1] + 1 if t[1] not in (-1, 0) else 3]
      return [C06.decoy_tree(v, how) for v in t]
    return t

  @staticmethod
  def hubbed_tree(t):
    """ The same single filter with every stream coefficient read through a
    shared hub; None when a coefficient cannot be shared that way. """
    out = dict(t)
    for part in ("num", "den"):
      lst = []
      for k, c in t[part]:
        if c[0] in ("s", "h"):
          lst.append([k, ["h", c[1]]])
        elif c[0] == "c":
          lst.append([k, list(c)])
        else:
          return None
      out[part] = lst
    return out

  def build(self, tree, sources, cstream=0, const_as_stream=False,
            hub_factor=1):
    """ Returns the real filter for ``tree`` over the given SimSources. """
    Stream, z, ZFilter = self.ls.Stream, self.lf.z, self.lf.ZFilter
    if not hasattr(self, "protos"):
      self.protos = []
    flip = [cstream]
    keep_alive = []
    hubs = {}
    uses = {}

    def count_uses(t):
      if isinstance(t, dict):
        for v in t.values():
          count_uses(v)
      elif isinstance(t, list):
        if len(t) == 2 and t[0] == "h":
          uses[t[1]] = uses.get(t[1], 0) + 1
        else:
          for v in t:
            count_uses(v)
    count_uses(tree)

    def cval(c, raw_ok=False):
      if c[0] == "s" and len(c) > 2:
        # how the coefficient stream is handed over (lists / dicts routes)
        if c[2] == "hub1":
          return self.ls.thub(Stream(sources[c[1]]), 1)
        if c[2] == "raw" and raw_ok:
          return sources[c[1]]           # a bare iterator, not a Stream
      if c[0] == "h":
        if c[1] not in hubs:
          hubs[c[1]] = self.ls.thub(Stream(sources[c[1]]),
                                    uses[c[1]] * hub_factor)
        return hubs[c[1]]
      if c[0] == "s":
        return Stream(sources[c[1]])
      if c[0] == "r":
        import itertools
        return Stream(itertools.repeat(Fraction(c[1]), c[2]))
      if c[0] == "f":
        v = fval(c)
        if const_as_stream:
          flip[0] += 1
          if flip[0] % 2 == 0:
            return Stream(v)
        return v
      if c[0] == "k":
        cs = self.ls.ControlStream(Fraction(c[1]))
        if c[3]:
          cs.map(lambda v: v * 3)
        if c[2] is not None:
          cs.limit(c[2])
        return cs
      if c[0] == "p":
        per = Stream(*[src_value(c[1], j) for j in range(c[2])])
        if c[3]:
          per.take(c[3])
        return per
      if const_as_stream:
        flip[0] += 1
        if flip[0] % 2 == 0:
          return Stream(Fraction(c[1]))
      return c[1]

    def rec(t):
      op = t["op"]
      if op == "single":
        if t["route"] == "proto":
          # copy a constant-coefficient prototype and give the COPY its
          # coefficients by item assignment; the prototype stays as it was
          proto = ZFilter(dict((k, 1) for k, _ in t["num"]),
                          dict((k, 1) for k, _ in t["den"]))
          f = proto.copy()
          for k, c in t["num"]:
            f.numpoly[k] = cval(c)
          for k, c in t["den"]:
            f.denpoly[k] = cval(c)
          self.protos.append((proto, sorted(k for k, _ in t["num"]),
                              sorted(k for k, _ in t["den"])))
          return f
        if t["route"] == "dicts":
          return ZFilter(dict((k, cval(c, True)) for k, c in t["num"]),
                         dict((k, cval(c, k != 0)) for k, c in t["den"]))
        if t["route"] == "lists":
          size = lambda lst: max([k for k, _ in lst] + [0]) + 1
          num = [0] * size(t["num"])
          for k, c in t["num"]:
            num[k] = cval(c, True)
          den = [0] * size(t["den"])
          for k, c in t["den"]:
            den[k] = cval(c, k != 0)
          return ZFilter(num, den)
        num = None
        for k, c in t["num"]:
          term = cval(c) * z ** -k
          num = term if num is None else num + term
        if t["route"] == "quot":
          den = 1
          for k, c in t["den"]:
            if k:
              den = den - cval(c) * z ** -k
          if len(t["den"]) == 1:
            return num
          return num / den
        den = None
        for k, c in t["den"]:
          term = cval(c) * z ** -k
          den = term if den is None else den + term
        return num / den
      if op == "add":
        return rec(t["a"]) + rec(t["b"])
      if op == "mul":
        return rec(t["a"]) * rec(t["b"])
      if op == "sub":
        return rec(t["a"]) - rec(t["b"])
      if op == "neg":
        return -rec(t["a"])
      if op == "div":
        return rec(t["a"]) / rec(t["b"])
      if op == "pow":
        return rec(t["a"]) ** t["n"]
      if op == "copyonly":
        keep_alive.append(rec(t["a"]))    # the original is never called
        return keep_alive[-1].copy()
      if op == "subst":
        return rec(t["a"])(cval(t["c"]) * z)
      if op == "polydiv":
        f = rec(t["a"])
        Poly = type(f.numpoly)
        return ZFilter(f.numpoly / Poly({t["d"]: cval(t["c"])}), f.denpoly)
      if op == "linearize":
        return rec(t["a"]).linearize()    # integer delays: the same filter
      if op == "fraclin":
        f = rec(t["a"])
        if t.get("post"):
          f = f * z ** -t["post"]
        return f.linearize()
      if op == "cascade":
        return self.lf.CascadeFilter([rec(t["a"]), rec(t["b"])])
      if op == "parallel":
        return self.lf.ParallelFilter([rec(t["a"]), rec(t["b"])])
      if op == "addc":
        f, c = rec(t["a"]), cval(t["c"])
        return {"f+c": lambda: f + c, "c+f": lambda: c + f,
                "f-c": lambda: f - c, "c-f": lambda: c - f}[t["how"]]()
      if op == "dupscale":
        h = rec(t["a"])
        if t["how"] == "+":
          return h * t["c1"] + h * t["c2"]
        return h * t["c1"] - h * t["c2"]
      if op == "copyadd":
        f = rec(t["a"])
        return f + f.copy()
      if op == "copymul":
        f = rec(t["a"])
        return f.copy() * f
      f = rec(t["a"])
      c = cval(t["c"])
      return c * f if t["side"] == "l" else f * c
    return rec(tree)

  def spec_polys(self, t, n):
    """ (num, den) of a tree at sample n straight from the specification. """
    def cv(c):
      if c[0] == "p":
        return src_value(c[1], (n + c[3]) % c[2])
      if c[0] == "k":
        return Fraction(c[1]) * (3 if c[3] else 1)
      if c[0] == "f":
        v = fval(c)
        return v if isinstance(v, complex) else Fraction(v)
      return src_value(c[1], n) if c[0] in ("s", "h") else Fraction(c[1])
    # (a finite constant stream ["r", value, times] has its constant value
    # for as long as it lasts; its length enters the output length)
    op = t["op"]
    if op == "single":
      num = dict((k, cv(c)) for k, c in t["num"])
      if t["route"] == "quot":
        den = {0: Fraction(1)}
        for k, c in t["den"]:
          if k:
            den[k] = -cv(c)
      else:
        den = dict((k, cv(c)) for k, c in t["den"])
      return num, den
    if op == "add":
      n1, d1 = self.spec_polys(t["a"], n)
      n2, d2 = self.spec_polys(t["b"], n)
      return padd(pmul(n1, d2), pmul(n2, d1)), pmul(d1, d2)
    if op == "mul":
      n1, d1 = self.spec_polys(t["a"], n)
      n2, d2 = self.spec_polys(t["b"], n)
      return pmul(n1, n2), pmul(d1, d2)
    if op == "sub":
      n1, d1 = self.spec_polys(t["a"], n)
      n2, d2 = self.spec_polys(t["b"], n)
      return padd(pmul(n1, d2), pscale(-1, pmul(n2, d1))), pmul(d1, d2)
    if op == "neg":
      n1, d1 = self.spec_polys(t["a"], n)
      return pscale(-1, n1), d1
    if op in ("linearize", "copyonly"):
      return self.spec_polys(t["a"], n)
    if op == "fraclin":
      n1, d1 = self.spec_polys(t["a"], n)
      if t.get("post"):
        # the delays add in floating point, as written; a sum that is an
        # integer is that integer delay
        shifted = {}
        for k, v in n1.items():
          k2 = k + t["post"]
          if isinstance(k2, float) and k2.is_integer():
            k2 = int(k2)
          shifted[k2] = shifted.get(k2, 0) + v
        n1 = shifted
      num = {}
      for k, v in n1.items():
        left = int(k)
        w = Fraction(k) - left
        for key, val in ((left, v * (1 - w)), (left + 1, v * w)):
          if val != 0:
            num[key] = num.get(key, 0) + val
      return dict((k, v) for k, v in num.items() if v != 0), d1
    if op == "div":
      n1, d1 = self.spec_polys(t["a"], n)
      n2, d2 = self.spec_polys(t["b"], n)
      return pmul(n1, d2), pmul(d1, n2)
    if op == "addc":
      n1, d1 = self.spec_polys(t["a"], n)
      c = cv(t["c"])
      sf, sc = {"f+c": (1, 1), "c+f": (1, 1), "f-c": (1, -1),
                "c-f": (-1, 1)}[t["how"]]
      return padd(pscale(sf, n1), pscale(sc * c, d1)), d1
    if op == "subst":
      n1, d1 = self.spec_polys(t["a"], n)
      c = cv(t["c"])
      return (dict((k, v / c ** k) for k, v in n1.items()),
              dict((k, v / c ** k) for k, v in d1.items()))
    if op == "polydiv":
      n1, d1 = self.spec_polys(t["a"], n)
      c = cv(t["c"])
      return dict((k - t["d"], v / c) for k, v in n1.items()), d1
    if op == "dupscale":
      n1, d1 = self.spec_polys(t["a"], n)
      k = t["c1"] + t["c2"] if t["how"] == "+" else t["c1"] - t["c2"]
      return pscale(k, n1), d1
    if op == "copyadd":
      n1, d1 = self.spec_polys(t["a"], n)
      return pscale(2, n1), d1
    if op == "copymul":
      n1, d1 = self.spec_polys(t["a"], n)
      return pmul(n1, n1), pmul(d1, d1)
    if op == "pow":
      n1, d1 = self.spec_polys(t["a"], n)
      nn, dd = {0: Fraction(1)}, {0: Fraction(1)}
      if t["n"] < 0:
        n1, d1 = d1, n1
      for _ in range(abs(t["n"])):
        nn, dd = pmul(nn, n1), pmul(dd, d1)
      return nn, dd
    n1, d1 = self.spec_polys(t["a"], n)
    return pscale(cv(t["c"]), n1), d1

  @staticmethod
  def tree_sids(t):
    out = []

    def rec(t):
      if t["op"] == "single":
        for part in ("num", "den"):
          for k, c in t[part]:
            if c[0] in ("s", "h") and c[1] not in out and \
               not (t["route"] == "quot" and part == "den" and k == 0):
              out.append(c[1])
      else:
        if "c" in t and t["c"][0] == "s":
          out.append(t["c"][1])
        for sub in ("a", "b"):
          if sub in t:
            rec(t[sub])
    rec(t)
    return out

  @staticmethod
  def numerator_only_sids(t):
    """ Plain ("s") coefficient streams that occur in numerators only. """
    num, other = set(), set()

    def rec(t):
      if t["op"] == "single":
        for part in ("num", "den"):
          for k, c in t[part]:
            if c[0] in ("s", "h", "p"):
              (num if part == "num" and c[0] == "s" else other).add(c[1])
      else:
        if "c" in t and isinstance(t["c"], list) and \
           t["c"][0] in ("s", "h", "p"):
          other.add(t["c"][1])
        for sub in ("a", "b"):
          if sub in t:
            rec(t[sub])
    rec(t)
    return sorted(num - other)

  @staticmethod
  def tree_has_stream(t):
    """ Any coefficient (or scalar operand) that is not a plain constant? """
    if t["op"] == "single":
      return any(c[0] not in ("c", "f") for part in ("num", "den")
                 for k, c in t[part])
    if "c" in t and isinstance(t["c"], list) and t["c"][0] not in ("c", "f"):
      return True
    return any(C06.tree_has_stream(t[sub]) for sub in ("a", "b") if sub in t)

  @staticmethod
  def tree_repeat_lens(t):
    out = []

    def visit(c):
      if c[0] == "r" or (c[0] == "k" and c[2] is not None):
        out.append(c[2])

    def rec(t):
      if t["op"] == "single":
        for part in ("num", "den"):
          for k, c in t[part]:
            if not (t["route"] == "quot" and part == "den" and k == 0):
              visit(c)
      else:
        if "c" in t and isinstance(t["c"], list):
          visit(t["c"])
        for sub in ("a", "b"):
          if sub in t:
            rec(t[sub])
    rec(t)
    return out

  def make_sources(self, wl, sids, endless_horizon=None):
    srcs = {}
    for sid in sids:
      ln = wl["lens"].get(str(sid))
      if ln is None and endless_horizon is not None:
        ln = endless_horizon
      srcs[sid] = SimSource(sid, ln, lambda i, s=sid: src_value(s, i),
                            name="coef%d" % sid)
    return srcs

  # --------------------------------------------------------------------- run
  def run(self, workload, S, want_sample=False):
    res = RunResult()
    events = []
    info = {}
    _VM["mode"] = workload.get("vmode", 0)
    _VM["zeros"] = frozenset(workload.get("zero_sids", ()))
    if _VM["mode"]:
      res.counters["probe.signed-values"] += 1
      if _VM["zeros"]:
        res.counters["probe.zero-valued-coefficient-samples"] += 1
    try:
      self._run(workload, S, res, events, info)
    except _Mismatch as mm:
      res.violation = Violation("model-mismatch", mm.what, mm.detail)
    except SimStall as st:
      res.violation = Violation("hang", "read-ahead-on-endless-reader",
                                str(st))
    if res.violation is not None and not self.tree_has_stream(workload["tree"]):
      # scope: the statement is about filters of which at least one
      # coefficient is a Stream; a run whose generated coefficients all came
      # out as plain constants is an LTI filter (other properties) - counted,
      # not judged
      res.counters["lti-only-not-judged"] += 1
      res.violation = None
    res.digest = digest_events(events)
    fired = any(k.startswith(("probe.", "fault.eof")) and v
                for k, v in res.counters.items())
    if info.get("nstreams") and fired:
      res.nontrivial_key = stable_hash((workload, info.get("demand")))
    if want_sample:
      res.sample = {"tree": workload["tree"], "lens": workload["lens"],
                    "xlen": workload["xlen"], "trace": events[:40]}
    return res

  def _run(self, wl, S, res, events, info):
    self.protos = []
    tree = wl["tree"]
    sids = self.tree_sids(tree)
    info["nstreams"] = len(sids)
    lengths = [wl["lens"].get(str(s)) for s in sids] + [wl["xlen"]]
    rep_lens = self.tree_repeat_lens(tree)
    if rep_lens:
      res.counters["probe.finite-constant-stream"] += 1
    finite = [v for v in lengths if v is not None] + rep_lens
    out_len = min(finite) if finite else None
    horizon = (out_len + 2) if out_len is not None else HORIZON
    res.counters["shape." + tree["op"]] += 1

    ncheck = horizon if out_len is None else out_len

    def model_of(sub):
      """ Inspects an identical build of ``sub`` (clauses 0 and 2) and
      returns its difference-equation simulator. """
      # ---- build A: inspect the filter's own coefficient sequences
      srcA = self.make_sources(wl, self.tree_sids(sub),
                                 endless_horizon=horizon + 2)
      try:
        fA = self.build(sub, srcA)
      except Exception as exc:
        raise _Mismatch("construct-raised", "building the filter raised %r"
                        % (exc,))
      for s in srcA.values():
        if s.delivered:
          raise _Mismatch("accounting:construction-read",
                          "building the filter read %d items of %s"
                          % (s.delivered, s.name))
      Stream = self.ls.Stream

      def seq_of(coeff):
        if isinstance(coeff, self.ls.StreamTeeHub):
          coeff = Stream(coeff)          # one use of the hub, as the call
        if isinstance(coeff, Stream):
          return list(coeff.take(horizon + 2)), True
        if hasattr(coeff, "__next__"):       # a bare iterator coefficient
          import itertools
          return list(itertools.islice(coeff, horizon + 2)), True
        return coeff, False

      numA, denA = {}, {}
      try:
        for k, c in list(fA.numpoly.terms()):
          numA[k] = seq_of(c)
        for k, c in list(fA.denpoly.terms()):
          denA[k] = seq_of(c)
      except Exception as exc:
        raise _Mismatch("inspect-raised", "reading the coefficient streams "
                        "raised %r" % (exc,))
      if any(k < 0 for k in list(numA) + list(denA)) or 0 not in denA:
        raise _Mismatch("not-causal", "built filter has powers num %r den %r"
                        % (sorted(numA), sorted(denA)))
      if isinstance(denA[0][0], list):
        res.counters["probe.stream-a0"] += 1

      def at(entry, n):
        seq, is_stream = entry
        if is_stream:
          return seq[n] if n < len(seq) else None
        return seq if isinstance(seq, complex) else Fraction(seq)

      # ---- (0)/(2): coefficient values at every n vs the specification
      for n in range(ncheck):
        na = dict((k, at(e, n)) for k, e in numA.items())
        da = dict((k, at(e, n)) for k, e in denA.items())
        if any(v is None for v in list(na.values()) + list(da.values())):
          raise _Mismatch("coefficient-stream-too-short",
                          "a coefficient stream of the built filter ends at "
                          "n=%d, its sources last %r" % (n, out_len))
        ns, ds = self.spec_polys(sub, n)
        na = dict((k, v) for k, v in na.items() if v != 0)
        da = dict((k, v) for k, v in da.items() if v != 0)
        if sub["op"] == "single":
          if not psame(na, ns) or not psame(da, ds):
            raise _Mismatch("construction", "n=%d: built filter has num %r den "
                            "%r, specified num %r den %r" % (n, na, da, ns, ds))
        elif not psame(pmul(na, ds), pmul(ns, da)):
          raise _Mismatch("algebra", "n=%d: composite num %r den %r is not the "
                          "%s of its operands (num %r den %r)"
                          % (n, na, da, sub["op"], ns, ds))
        elif not has_sum(sub):
          # products, quotients, powers, negation and scaling act on the
          # coefficient sequences term by term: the result's own sequences
          # are the polynomial products (sums of fractions have two natural
          # forms - equal denominators or cross-multiplied - so trees with a
          # sum in them are only held to rational-function equality above)
          shift = min(ds) if ds else 0
          ns2 = dict((k - shift, v) for k, v in ns.items())
          ds2 = dict((k - shift, v) for k, v in ds.items())
          # ... up to one common factor per instant: the whole difference
          # equation of sample n multiplied by lam[n] != 0 is the same
          # equation (a result normalised to a0 = 1, say)
          lam = 1
          if 0 in da and 0 in ds2 and ds2[0] != 0 and da[0] != 0:
            lam = da[0] / ds2[0]
            if lam != 1:
              res.counters["probe.result-scaled-by-a-common-factor"] += 1
          if not psame(na, pscale(lam, ns2)) or \
             not psame(da, pscale(lam, ds2)):
            raise _Mismatch("algebra:coefficient-sequences",
                            "n=%d: %s has num %r den %r, the term-by-term "
                            "result is num %r den %r"
                            % (n, sub["op"], na, da, ns2, ds2))

      # ---- expected output: the difference equation on A's own sequences
      order = max(denA)

      def simulate(xs, memory):
        ys = []
        for n in range(len(xs)):
          acc = Fraction(0)
          for k, e in numA.items():
            if n - k >= 0:
              acc += at(e, n) * xs[n - k]
          for k, e in denA.items():
            if k >= 1 and n - k >= 0:
              acc -= at(e, n) * ys[n - k]
            elif k >= 1 and memory is not None:
              acc -= at(e, n) * memory[k - n - 1]
          a0 = at(denA[0], n)
          ys.append(acc / a0)
        return ys
      return simulate, order


    xs = [x_value(i) for i in range(ncheck)]
    memory = None
    if tree["op"] in ("cascade", "parallel"):
      # members are applied one after the other / side by side, each with its
      # own coefficient streams sampled once per output sample
      sim_a, _ = model_of(tree["a"])
      sim_b, _ = model_of(tree["b"])
      if tree["op"] == "cascade":
        ys = sim_b(sim_a(xs, None), None)
      else:
        ys = [u + v for u, v in zip(sim_a(xs, None), sim_b(xs, None))]
      res.counters["probe.filter-list-of-time-varying-members"] += 1
    else:
      simulate, order = model_of(tree)
      if wl.get("memory") and order >= 1:
        # exactly as long as the filter needs: y[-1], y[-2], ...
        memory = [Fraction(3 + 2 * j, 2) for j in range(order)]
        res.counters["probe.non-zero-memory"] += 1
      ys = simulate(xs, memory)

    # ---- the decoy: built and called before the filter under test
    if wl.get("decoy"):
      dtree = self.decoy_tree(tree, wl["decoy"])
      try:
        fX = self.build(dtree, self.make_sources(wl, self.tree_sids(dtree)))
        list(fX([x_value(i) for i in range(4)],
                zero=Fraction(0)).take(4))
        res.counters["probe.decoy-filter-called-first"] += 1
      except Exception:
        pass          # a decoy that cannot run (a0 = 0 ...) decides nothing
    # ---- build B: run with read accounting
    srcB = self.make_sources(wl, sids)
    xsrc = SimSource(0, wl["xlen"], x_value, name="input")
    readers = [xsrc] + [srcB[s] for s in sids]
    for r in readers:
      if r.length is None:
        r.budget, r.slack = 0, 8
        res.counters["fault.endless"] += 1
    try:
      fB = self.build(tree, srcB)
      if wl.get("hash_first"):
        try:
          hash(fB)
          res.counters["probe.filter-hashed-before-the-call"] += 1
        except TypeError:
          pass                      # unhashable is fine, later failure is not
      for nm in wl.get("inspect_first") or ():
        if tree["op"] in ("cascade", "parallel") and not nm.startswith("is"):
          # the polynomials of a filter list are computed by multiplying /
          # adding its members': algebra that uses the members' streams once
          # more (a single-use hub is then rightly exhausted)
          continue
        try:
          val = getattr(fB, nm, None)
          if callable(val) and nm.startswith("is_"):
            val()
          res.counters["probe.filter-inspected-before-the-call"] += 1
        except (ValueError, TypeError, AttributeError):
          pass
      if memory is not None:
        out = fB(xsrc, memory=list(memory), zero=Fraction(0))
      else:
        out = fB(xsrc, zero=Fraction(0))
    except Exception as exc:
      raise _Mismatch("call-raised", "calling the filter raised %r" % (exc,))
    for r in readers:
      if r.delivered:
        raise _Mismatch("accounting:construction-read",
                        "calling the filter read %d items of %s before any "
                        "output was asked for" % (r.delivered, r.name))
    it = iter(out)
    n = 0
    demand = []
    ended = False
    limit = ncheck if out_len is None else out_len + 1
    while n < limit and not ended:
      k = 1 + S.choose("demand", 4)
      demand.append(k)
      for _ in range(k):
        if n >= limit:
          break
        for r in readers:
          r.budget = n + 1
        try:
          y = next(it)
        except StopIteration:
          ended = True
          break
        except Exception as exc:
          what = "end:raised-" + type(exc).__name__ \
            if out_len is not None and n >= out_len else \
            "output-raised-" + type(exc).__name__
          raise _Mismatch(what, "output %d raised %r (readers end at %r)"
                          % (n, exc, out_len))
        if out_len is not None and n >= out_len:
          raise _Mismatch("end:too-long", "output %d = %r although a reader "
                          "ended after %d items" % (n, y, out_len))
        if not close(y, ys[n], max([1] + [abs(v) for v in ys[:n + 1]])):
          raise _Mismatch("system", "y[%d] = %r, the difference equation on "
                          "the filter's own coefficients gives %r"
                          % (n, y, ys[n]))
        for r in readers:
          if r.delivered != n + 1:
            what = "accounting:read-ahead" if r.delivered > n + 1 else \
              "accounting:not-read"
            raise _Mismatch(what, "after output %d reader %s delivered %d "
                            "items (must be exactly %d)"
                            % (n, r.name, r.delivered, n + 1))
        n += 1
      events.append("pull %d -> n=%d%s" % (k, n, " END" if ended else ""))
    info["demand"] = demand
    res.steps = n
    for proto, npow, dpow in getattr(self, "protos", []):
      nt = dict(proto.numpoly.terms())
      dt = dict(proto.denpoly.terms())
      if sorted(nt) != npow or sorted(dt) != dpow or \
         any(isinstance(v, self.ls.Stream) or v != 1
             for v in list(nt.values()) + list(dt.values())):
        raise _Mismatch("prototype-changed", "the constant-coefficient "
                        "filter that was only copied now has num %r den %r"
                        % (nt, dt))
      res.counters["probe.copy-of-a-prototype-re-armed"] += 1
    if out_len is not None:
      if not ended:
        raise _Mismatch("end:too-long", "no StopIteration after %d outputs"
                        % n)
      if n != out_len:
        raise _Mismatch("end:too-short", "output ended after %d items, "
                        "readers last %d" % (n, out_len))
      res.counters["fault.eof-at"] += 1
      first = [r.name for r in readers if r.length == out_len]
      if "input" in first:
        res.counters["probe.input-ends-first"] += 1
      if any(nm != "input" for nm in first):
        res.counters["probe.coefficient-ends-first"] += 1
      input_first = wl["xlen"] == out_len and \
        all(v is None or v > out_len for v in
            [wl["lens"].get(str(s)) for s in sids] + rep_lens)
      if input_first:
        res.counters["probe.input-alone-ends-first"] += 1
      for r in readers:
        if r.delivered > out_len + 1 or r.delivered < out_len:
          raise _Mismatch("accounting:at-end", "at the end reader %s "
                          "delivered %d items, output length %d"
                          % (r.name, r.delivered, out_len))
        if input_first and r is not xsrc and r.delivered != out_len:
          # "every coefficient stream is read exactly once per output
          # sample": when only the input ran out there were out_len output
          # samples, so out_len reads - not one more
          raise _Mismatch("accounting:coefficient-read-without-output",
                          "the input ended after %d items (all coefficient "
                          "streams are longer) but reader %s delivered %d "
                          "items for %d output samples"
                          % (out_len, r.name, r.delivered, out_len))
    # a stream feeding several product terms
    if tree["op"] in ("mul", "add", "sub", "div", "pow", "copyadd", "copymul",
                      "dupscale", "addc", "cascade", "parallel") and sids:
      res.counters["probe.stream-feeds-several-terms"] += 1

    # ---- (5) constant as constant stream (single and scaled filters only)
    if tree["op"] in ("single", "scale") and ncheck:
      srcC = self.make_sources(wl, sids)
      xc = SimSource(0, wl["xlen"], x_value, name="input")
      try:
        fC = self.build(tree, srcC, wl.get("cstream", 0), True)
        if memory is not None:
          got = list(fC(xc, memory=list(memory),
                        zero=Fraction(0)).take(ncheck))
        else:
          got = list(fC(xc, zero=Fraction(0)).take(ncheck))
      except Exception as exc:
        raise _Mismatch("constant-stream-raised", "with constants replaced "
                        "by constant streams the filter raised %r" % (exc,))
      if not all_close(got, ys[:len(got)]) or \
         len(got) != min(ncheck, len(ys)):
        raise _Mismatch("constant-stream", "constants replaced by constant "
                        "streams: output %r, with constants %r"
                        % (got, ys[:ncheck]))
      res.counters["probe.constant-as-stream"] += 1

    # ---- (6) a derived sibling: g = 3*f or -f, coefficients through 2-use
    # hubs, BOTH filters called.  Scaling / negation acts on the coefficient
    # sequences element by element, so g's output is 3*y resp. -y, and
    # calling one of the two must not disturb the other.
    sib = wl.get("sibling")
    if sib and tree["op"] == "single" and memory is None and ncheck and \
       tree["route"] in ("lists", "dicts"):
      # (only the routes in which the filter holds the hub objects
      # themselves: an expression such as hub * z**-1 already spends a use
      # and leaves a plain Stream, which two filters may not share)
      ht = self.hubbed_tree(tree)
      if ht is not None and self.tree_sids(ht):
        srcD = self.make_sources(wl, self.tree_sids(ht))
        try:
          fD = self.build(ht, srcD, hub_factor=2)
          if sib[0] == "scale3":
            gD, factor = fD * 3, 3
          elif sib[0] == "rscale3":
            gD, factor = 3 * fD, 3
          elif sib[0] == "same":
            # the very same filter object called twice (its coefficient
            # streams are 2-use hubs, so both calls have their streams)
            gD, factor = fD, 1
          elif sib[0] == "copy":      # f.copy() and f
            gD, factor = fD.copy(), 1
          else:
            gD, factor = -fD, -1
          n_out = len(ys)
          x1 = [x_value(i) for i in range(n_out)]
          first, second = (gD, fD) if sib[1] != "f-g" else (fD, gD)
          o1 = iter(first(list(x1), zero=Fraction(0)))
          if sib[1] == "mixed":
            o2 = iter(second(list(x1), zero=Fraction(0)))
            r1, r2 = [], []
            for _ in range(n_out):
              r1.append(next(o1))
              r2.append(next(o2))
          else:
            r1 = [next(o1) for _ in range(n_out)]
            o2 = iter(second(list(x1), zero=Fraction(0)))
            r2 = [next(o2) for _ in range(n_out)]
        except Exception as exc:
          raise _Mismatch("sibling-raised", "f and g = %s(f) sharing their "
                          "coefficient streams through 2-use hubs, both "
                          "called (%s): raised %r" % (sib[0], sib[1], exc))
        rg, rf = (r1, r2) if sib[1] != "f-g" else (r2, r1)
        if not all_close(rf, ys[:n_out]) or \
           not all_close(rg, [factor * v for v in ys[:n_out]]):
          raise _Mismatch("sibling", "f and g = %s(f) sharing their "
                          "coefficient streams through 2-use hubs (%s): f "
                          "gave %r (expected %r), g gave %r"
                          % (sib[0], sib[1], rf, ys[:n_out], rg))
        res.counters["probe.derived-sibling-both-called"] += 1


PROPERTY = C06
