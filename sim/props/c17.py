# -*- coding: utf-8 -*-
"""
C17 - Audio playback delivers every sample once, in order, and always shuts
down.  Engine A: the real AudioIO / AudioThread / RecStream / chunks / blocks
code on real threads under the seeded scheduler, with the fake PyAudio
backend and stall faults.
"""
import gc
import struct

from .. import audio, backend, threads
from ..kernel import (Property, RunResult, Violation, stable_hash,
                      digest_events, HarnessError)
from .util import drop_candidates

SIZEOF = {"f": 4, "h": 2, "i": 4, "b": 1, "B": 1}


def sample_value(p, i, dfmt):
  v = (p * 37 + i * 7) % 100 + 1          # 1..100, never the padding zero
  return v / 2.0 if dfmt == "f" else v


def audio_values(p, spec, n=None):
  if spec["kind"] == "rec":       # what the fake input device delivers
    return [float(k % 100) if spec["dfmt"] == "f" else k % 100
            for k in range(n)]
  if spec["kind"] == "periodic":
    per = [sample_value(p, i, spec["dfmt"]) for i in range(spec["len"])]
    return [per[i % len(per)] for i in range(n)]
  return [sample_value(p, i, spec["dfmt"]) for i in range(spec["len"])]


def _thub():
  from audiolazy.lazy_stream import thub
  return thub


class _GetItemOnly(object):
  """ Iterable only through the old sequence protocol. """

  def __init__(self, vals):
    self.vals = list(vals)

  def __getitem__(self, idx):
    return self.vals[idx]


def hot_lines_of(module, func_names):
  """ Source lines (of the current tree) inside the named functions. """
  import inspect
  lines = set()
  for cls in (module.AudioIO, module.AudioThread):
    for name, fn in inspect.getmembers(cls, inspect.isfunction):
      if name in func_names:
        try:
          src, start = inspect.getsourcelines(fn)
        except (OSError, TypeError):
          continue
        for off, text in enumerate(src):
          t = text.strip()
          if t and t[0] not in "#\"'" and not t.startswith("def "):
            lines.add(start + off)
  return sorted(lines)


def default_knobs():
  return {"strategy": "random", "sticky_den": 4, "pct_d": 2,
          "pct_horizon": 400, "gap_max": 0, "line_budget": 0, "fair": 64,
          "stall_den": 0, "late_den": 0, "phase2_seeded": 1,
          "tstall_den": 0, "tstall_at": None, "faults_in_close": 0,
          "hot_line": None, "hot_budget": 0}


class C17(Property):
  id = "C17"
  engine = "threads"
  rule = ("each run = seeded control script (1-3 players, pause/resume/stop/"
          "idle, optional record stream, close/terminate/with-exit, second "
          "close, play after close; wait true/false) executed by the real "
          "lazy_io code under a seeded scheduler (random walk / sticky / "
          "run-to-block / PCT, line or bytecode-instruction pre-emption, "
          "fairness cap) with device-stall, thread-stall and late-start "
          "faults (stalls may continue while close() runs). distinct = distinct digest of the "
          "(thread, sync-or-device-point) sequence; non-trivial = at least "
          "one player and at least two context switches during the run")
  components = {
    "real": ["audiolazy.lazy_io.AudioIO", "audiolazy.lazy_io.AudioThread",
             "audiolazy.lazy_io.RecStream", "audiolazy.lazy_io.chunks",
             "audiolazy.lazy_misc.blocks", "audiolazy.lazy_stream.Stream",
             "threading.Thread (real OS threads, released one at a time)"],
    "stub": ["pyaudio.PyAudio and its stream objects (fake, records device "
             "history)", "_portaudio.write_stream (fake)",
             "threading.Lock / threading.Event (simulated equivalents)",
             "AudioThread.start/join/is_alive (scheduler-controlled)"]}
  assumptions = [
    "SimLock/SimEvent are semantically equivalent to threading.Lock/Event "
    "(set wakes all current waiters)",
    "pre-emption granularity: synchronisation/device points and source lines "
    "(in part of the runs: bytecode instructions) of audiolazy/lazy_io.py",
    "fairness imposed by a starvation cap; liveness bound generous, not tight",
    "failing sources/devices are outside the statement and not generated in "
    "deciding configurations",
    "close(wait=True) with an endless-unstopped player is specified to wait "
    "forever and is not generated; with a player left paused by the script "
    "it is generated, and the only accepted non-returning end is "
    "main@join(player) | player@go.wait of such a player"]

  def setup(self):
    self.lio = audio.install()
    self.trace_files = (self.lio.__file__.replace(".pyc", ".py"),)
    audio.self_check(lambda: threads.Scheduler(
      __import__("sim.kernel", fromlist=["Decider"]).Decider(seed=1),
      default_knobs(), self.trace_files))
    self.runs_done = 0
    self.hot_lines = hot_lines_of(self.lio, ["run", "stop", "pause", "play",
                                             "close", "thread_finished",
                                             "recording_finished", "rec"])

  def budget(self, tier):
    return (70000, 60.0) if tier == "quick" else (12000000, 780.0)

  def extra_schedules(self):
    return 12

  # ---------------------------------------------------------------- workload
  def gen_workload(self, W, index):
    knobs = default_knobs()
    knobs["strategy"] = W.weighted("strategy", [(3, "random"), (2, "sticky"),
                                                (1, "rtb"), (3, "pct")])
    knobs["sticky_den"] = W.pick("sticky", [4, 2, 8])
    knobs["pct_d"] = W.choose("pct_d", 7)
    knobs["pct_horizon"] = W.pick("pct_h", [100, 400, 1500])
    knobs["gap_max"] = W.pick("gap", [0, 6, 25, 100])
    knobs["line_budget"] = W.pick("lbud", [0, 5, 30, 200])
    knobs["fair"] = W.pick("fair", [64, 8, 32, 256])
    knobs["stall_den"] = W.pick("stall", [0, 0, 40, 10, 4])
    knobs["late_den"] = W.pick("late", [0, 0, 8, 2])
    knobs["tstall_den"] = W.pick("tstall", [0, 0, 0, 40, 10])
    if W.chance("tstall-placed", 1, 4):
      # stalls placed at one kind of synchronisation point only, and likely
      knobs["tstall_den"] = 2
      knobs["tstall_at"] = W.pick("tstall-at", [
        "lock.rel", "lock.acq", "ev.is_set", "ev.wait", "dev.stop_stream",
        "dev.close", "dev.write"])
    knobs["faults_in_close"] = 1 if W.chance("faults-in-close", 1, 3) else 0
    knobs["phase2_seeded"] = W.pick("p2", [1, 20, 200])
    if self.hot_lines and W.chance("hot", 1, 3):
      knobs["hot_line"] = W.pick("hotline", self.hot_lines)
      knobs["hot_budget"] = W.pick("hotbudget", [1, 2, 5])
      knobs["phase2_seeded"] = 200
    if knobs["gap_max"] and knobs["line_budget"] and \
       W.chance("opcodes", 1, 3):
      # instruction granularity: a switch may land inside a source line
      knobs["opcodes"] = 1
      knobs["gap_max"] *= W.pick("opgap", [1, 3, 8])
    wait = bool(W.choose("wait", 2))
    nplayers = W.weighted("nplayers", [(4, 1), (3, 2), (2, 3), (1, 0)])
    script = []
    specs = []
    state = {}     # player -> dict(paused, stopped, endless)
    nops = W.span("nops", 0, 12)
    burst = W.chance("burst", 1, 3)
    gchunk = W.pick("gchunk", [None, None, 2, 4])
    gch = [gchunk]      # the global default chunk size at this point of the script

    def new_player():
      kind = W.weighted("akind", [(10, "list"), (4, "gen"), (4, "periodic"),
                                  (1, "rec")])
      cs = W.pick("cs", [1, 2, 3, 4, 8])
      ch = W.pick("ch", [1, 1, 2])
      dfmt = W.pick("dfmt", ["f", "h", "i", "b", "B"])
      per = cs * ch
      if kind == "rec":
        ln = W.pick("rec_cs", [1, 2, 4])     # chunk size of the input device
        dfmt = W.pick("rdfmt", ["f", "h"])
      elif kind == "periodic":
        ln = W.span("plen", 1, 5)
      else:
        ln = W.weighted("alen", [
          (2, W.choose("chunks", 7) * per),                 # exact multiple
          (3, W.choose("chunks", 7) * per + W.choose("rem", per)),
          (1, 0), (1, 1)])
      if kind in ("list", "gen") and W.chance("long-audio", 1, 60):
        # hundreds of chunks: whatever builds up per chunk in the player
        ln = (150 + W.choose("longchunks", 300)) * per + W.choose("rem", per)
      spec = {"kind": kind, "len": ln, "chunk_size": cs, "channels": ch,
              "dfmt": dfmt, "use_global": bool(gch[0]) and
              bool(W.choose("useg", 2)),
              # the deprecated spelling of the channels argument
              "nch_kw": ch > 1 and W.chance("nchannels-kw", 1, 4),
              "rate": W.pick("rate", [None, None, 8000, 22050]),
              # an explicit output device (0 is a valid PortAudio index)
              "dev": W.pick("dev", [None, None, None, 0, 5]),
              "extra_kw": W.chance("extra-kw", 1, 5),
              # the documented daemon= option of the player thread
              "daemon": W.pick("daemon", [None, None, None, False, True]),
              # the played generator itself calls play() (from the player
              # thread) when it reaches this item
              "spawn_at": W.choose("spawnat", max(1, ln)) if kind == "gen"
              and W.chance("spawn", 1, 4) else None}
      if kind == "rec" and W.chance("rec-shaped", 1, 3):
        # the recording shaped in place before it is played: a finite piece
        # of it (limit), possibly with a copy kept by the caller
        spec["rec_limit"] = W.pick("reclimit", [0, 1, ln, 3 * ln, 3 * ln + 1])
        spec["rec_copy"] = W.chance("rec-copy-kept", 1, 3)
      if kind == "list" and W.chance("wrap", 1, 3):
        # the same finite samples handed over as another kind of iterable
        spec["wrap"] = W.pick("wrapkind", ["stream", "hub1", "tuple", "iter",
                                           "hub2", "sequence", "deque",
                                           "array", "userlist", "dictkeys"])
      if spec["use_global"]:
        spec["chunk_size"] = gch[0]
      specs.append(spec)
      state[len(specs) - 1] = {"paused": False, "stopped": False,
                               "endless": kind in ("periodic", "rec") and
                               spec.get("rec_limit") is None}
      script.append(["play", spec])

    for _ in range(min(nplayers, 1)):
      new_player()
    for _ in range(nops):
      can_play = len(specs) < nplayers
      opts = [(2, "idle")]
      if specs:
        opts += [(3, "pause"), (3, "resume"), (2, "stop")]
      if can_play:
        opts += [(3, "play")]
      opts += [(1, "play_bad")]
      nrec = sum(1 for op in script if op[0] == "record")
      nloop = sum(1 for sp in specs if sp["kind"] == "rec")
      if any(sp.get("rec_limit") is not None for sp in specs):
        nloop = 0     # (a shaped recording is not stopped by the script)
      if nrec < 2:
        opts += [(1, "record")]
      if nrec and W.chance("rectake", 1, 2):
        opts += [(1, "rec_take"), (1, "rec_stop")]
      if nloop and W.chance("loopstop", 1, 2):
        # RecStream.stop() on an input stream that a player loops to the
        # output: the player then runs out of audio and ends by itself
        opts += [(2, "loop_stop")]
      if gchunk and W.chance("regchunk", 1, 6):
        # the global default chunk size is changed while players that were
        # opened under the old default are still alive
        opts += [(2, "gchunk")]
      op = W.weighted("op", opts)
      if op == "gchunk":
        gch[0] = W.pick("newgchunk", [1, 2, 3, 4, 8])
        script.append(["gchunk", gch[0]])
      elif op == "play":
        new_player()
      elif op == "play_bad":
        script.append(["play_bad", W.pick("bad", ["dfmt", "kw"])])
      elif op == "idle":
        script.append(["idle", W.pick("idlek", [1, 3, 10, 50])])
      elif op == "record":
        script.append(["record", {"chunk_size": W.pick("rcs", [1, 2, 4, None]),
                                  "dfmt": W.pick("rfmt", ["f", "h", "i"]),
                                  "rate": W.pick("rrate", [None, 8000]),
                                  "dev": W.pick("rdev", [None, None, 0, 4]),
                                  "gdef": gch[0]}])
      elif op == "rec_take":
        script.append(["rec_take", W.span("rn", 1, 6), W.choose("which", nrec)])
      elif op == "rec_stop":
        script.append(["rec_stop", W.choose("which", nrec)])
      elif op == "loop_stop":
        script.append(["loop_stop", W.choose("whichloop", nloop)])
      else:
        i = W.choose("who", len(specs))
        script.append([op, i])
        st = state[i]
        if op == "pause":
          st["paused"] = True
        elif op == "resume":
          st["paused"] = False
        else:
          st["stopped"] = True
      if not burst and W.chance("gap-idle", 1, 2):
        script.append(["idle", W.pick("idlek", [1, 3, 10])])
    while len(specs) < nplayers:
      new_player()
    parked_ok = False
    if wait:
      # waiting for audio that can never finish is the specified behaviour,
      # not a hang: resume or stop such players before closing
      for i, st in sorted(state.items()):
        if st["stopped"]:
          continue
        if st["endless"]:
          script.append(["stop", i])
        elif st["paused"]:
          if W.chance("leave-paused", 1, 4):
            # left paused: if the pause reached the player in time, close()
            # waits for ever - as specified; such an end of the run is
            # accepted (and nothing else is).  If the pause came too late
            # (the player was already finishing) close() must return.
            parked_ok = True
            continue
          script.append(["resume" if W.choose("fixp", 2) == 0 else "stop", i])
    observe = None
    if specs and W.chance("observe", 1, 60):
      # observation channel (never deciding): a source or a device that fails
      observe = {"what": W.pick("obs", ["source-raises", "write-raises"]),
                 "player": W.choose("obsp", len(specs)),
                 "at": W.choose("obsat", 4)}
    wl = {"wait": wait, "script": script, "observe": observe,
          "ctx": W.weighted("ctx", [(6, "close"), (2, "terminate"),
                                    (3, "with"), (1, "with-exc")]),
          "api": W.weighted("api", [(5, None), (1, "jack")]),
          "gchunk": gchunk,
          "parked_ok": parked_ok,
          # backend variation: PyAudio's private stream registry kept
          # faithfully, or left empty (streams registered elsewhere)
          "registry": W.weighted("registry", [(5, "faithful"), (1, "empty")]),
          # a second, independent manager with its own player, alive all along
          "second_manager": W.chance("aio2", 1, 4),
          "after": {"close2": bool(W.choose("close2", 2)),
                    "play_after": bool(W.choose("pafter", 2))},
          "knobs": knobs}
    return wl

  def shrink_candidates(self, workload):
    script = workload["script"]
    for cand in drop_candidates(script):
      fixed = self._reindex(script, cand)
      if fixed is not None:
        wl = dict(workload)
        wl["script"] = fixed
        yield wl
    # shorten audio
    for idx, op in enumerate(script):
      if op[0] == "play" and op[1]["len"] > 0:
        for ln in (0, op[1]["len"] // 2, op[1]["len"] - 1):
          if ln < op[1]["len"]:
            wl = dict(workload)
            wl["script"] = [list(o) for o in script]
            spec = dict(op[1])
            spec["len"] = ln
            wl["script"][idx] = ["play", spec]
            yield wl
      if op[0] == "idle" and op[1] > 1:
        wl = dict(workload)
        wl["script"] = [list(o) for o in script]
        wl["script"][idx] = ["idle", 1]
        yield wl
    # simpler knobs / epilogue
    base = default_knobs()
    for key in sorted(base):
      if workload["knobs"].get(key) != base[key]:
        wl = dict(workload)
        wl["knobs"] = dict(workload["knobs"])
        wl["knobs"][key] = base[key]
        yield wl
    for key in ("close2", "play_after"):
      if workload["after"].get(key):
        wl = dict(workload)
        wl["after"] = dict(workload["after"])
        wl["after"][key] = False
        yield wl
    if workload["ctx"] != "close":
      wl = dict(workload)
      wl["ctx"] = "close"
      yield wl
    if workload.get("api"):
      wl = dict(workload)
      wl["api"] = None
      yield wl

  @staticmethod
  def _reindex(old, new):
    """ Dropping a play op renumbers the players; ops on it are dropped. """
    kept_ids = set(id(o) for o in new)
    mapping = {}
    n_old = n_new = 0
    for op in old:
      if op[0] == "play":
        if id(op) in kept_ids:
          mapping[n_old] = n_new
          n_new += 1
        n_old += 1
    out = []
    for op in new:
      if op[0] in ("pause", "resume", "stop"):
        if op[1] not in mapping:
          continue
        out.append([op[0], mapping[op[1]]])
      else:
        out.append(op)
    return out

  def corpus(self):
    def play(kind="list", ln=4, cs=1, ch=1, dfmt="f"):
      return ["play", {"kind": kind, "len": ln, "chunk_size": cs,
                       "channels": ch, "dfmt": dfmt, "use_global": False}]

    def wl(script, wait=False, ctx="close", knobs=None, after=None,
           parked_ok=False):
      k = default_knobs()
      k.update({"strategy": "random", "gap_max": 6, "line_budget": 30})
      k.update(knobs or {})
      return {"wait": wait, "script": script, "ctx": ctx, "api": None,
              "gchunk": None, "knobs": k, "parked_ok": parked_ok,
              "after": after or {"close2": True, "play_after": True}}
    scripts = [
      # a paused player at shutdown (the section-5 deadlock)
      dict(script=[play("periodic", 3), ["pause", 0]]),
      dict(script=[play("list", 6), ["pause", 0], ["idle", 10]]),
      dict(script=[play("list", 6, 2), ["pause", 0], ["idle", 3],
                   ["stop", 0]], wait=True),
      # a player left paused when close(wait=True) starts (the known
      # finding C17-close-wait-true-paused-player)
      dict(script=[play("list", 40), ["pause", 0], ["idle", 30]], wait=True,
           parked_ok=True),
      # the racy variant: pause, resume, stop, close without idle
      dict(script=[play("list", 8), ["pause", 0], ["resume", 0],
                   ["stop", 0]]),
      dict(script=[play("periodic", 2), ["pause", 0], ["resume", 0]]),
      # pause landing after stop while the player is between its halting
      # test and go.wait()
      dict(script=[play("list", 8), ["pause", 0], ["stop", 0],
                   ["pause", 0]]),
      dict(script=[play("periodic", 2), ["pause", 0], ["idle", 1],
                   ["stop", 0], ["pause", 0]], wait=True),
      # players finishing while close runs
      dict(script=[play("list", 3), play("list", 1), play("list", 0)],
           wait=True, ctx="with"),
      dict(script=[play("gen", 5, 2, 2, "h"), play("list", 4, 4, 1, "b")],
           wait=True),
      dict(script=[play("list", 1), play("list", 1), play("list", 1)]),
      dict(script=[], ctx="terminate"),
      dict(script=[["record", {"chunk_size": 2, "dfmt": "f"}],
                   ["rec_take", 3], ["rec_stop", 0], play("list", 3)]),
      dict(script=[play("list", 9, 2), play("gen", 4)], wait=True,
           ctx="with-exc"),
      dict(script=[["record", {"chunk_size": 2, "dfmt": "f"}],
                   ["rec_take", 3], play("list", 2)], wait=True),
      dict(script=[play("periodic", 2), play("list", 5, 2), ["stop", 0],
                   ["pause", 1], ["resume", 1]], wait=True),
      # two recording streams open at shutdown, one of them looped to a player
      dict(script=[["record", {"chunk_size": 2, "dfmt": "f"}],
                   play("rec", 2), ["rec_take", 3], ["idle", 10]]),
    ]
    variants = [{"strategy": "random", "gap_max": 6, "line_budget": 30},
                {"strategy": "sticky", "sticky_den": 8, "phase2_seeded": 200},
                {"strategy": "pct", "pct_d": 2, "pct_horizon": 100,
                 "phase2_seeded": 200}]
    out = []
    for sc in scripts:
      for kn in variants:
        out.append(wl(knobs=kn, **sc))
    return out

  # --------------------------------------------------------------------- run
  def run(self, workload, S, want_sample=False):
    lio = self.lio
    knobs = dict(default_knobs())
    knobs.update(workload.get("knobs") or {})
    res = RunResult()
    specs = [op[1] for op in workload["script"] if op[0] == "play"]
    finite_chunks = 0
    for sp in specs:
      if sp["kind"] not in ("periodic", "rec"):
        per = sp["chunk_size"] * sp["channels"]
        finite_chunks += -(-sp["len"] // per)
    rt_specs = []        # spec of ctl["players"][i], in creation order
    ctl = {"players": [], "stopped": set(), "pos": 0, "aio": None,
           "script_players": [],
           "finished_before_close": set(), "rec": [], "paused": set()}

    def endless_runnable(sched):
      if sched.phase != 1:
        return False
      for i, th in enumerate(ctl["players"]):
        if rt_specs[i]["kind"] in ("periodic", "rec") and th is not None and \
           th._sim_thread.state != "finished":
          return True
      return False

    knobs["endless_runnable"] = endless_runnable
    knobs["step_cap"] = 60000
    sched = threads.Scheduler(S, knobs, self.trace_files)
    sden = knobs.get("stall_den", 0)

    def stall_fn(kind):
      if not sden:
        return 0
      if not S.chance("stall", 1, sden):
        return 0
      if S.chance("stall.long", 1, 20):
        return 1000
      return 1 + S.choose("stall.k", 50)

    world = backend.World(sched, stall_fn)
    world.registry = workload.get("registry", "faithful")
    backend.set_world(world)
    if workload.get("observe") and \
       workload["observe"]["what"] == "write-raises":
      count = [0]

      def write_fault(stream, at=workload["observe"]["at"]):
        count[0] += 1
        if count[0] == at + 1:
          raise IOError(-9999, "injected device failure")
      world.write_fault = write_fault
    lden = knobs.get("late_den", 0)

    def on_player_start(thread_obj, st):
      if lden and S.chance("late", 1, lden):
        sched.delay_start(st, 1 + S.choose("late.k", 200))
    sched.on_player_start = on_player_start

    def state_fn(s):
      aio = ctl["aio"]
      parts = [ctl["pos"], s.phase]
      for th in ctl["players"]:
        if th is None:
          continue
        st = th._sim_thread
        # (coverage measure only; whatever these attributes are today)
        parts.append((st.last_line,
                      getattr(getattr(th, "go", None), "flag", None),
                      getattr(th, "halting", None),
                      st.state == "finished", st.state == "blocked"))
      if aio is not None:
        parts.append((len(getattr(aio, "_threads", ())), aio.finished))
      return tuple(parts)
    sched.state_fn = state_fn
    outcome = {}
    old_size = lio.chunks.size

    obs = workload.get("observe")
    if obs:
      knobs["step_cap"] = 6000
      sched.cap = 6000

    def failing(it, at):
      for j, v in enumerate(it):
        if j == at:
          raise ValueError("injected failure of the played iterable")
        yield v

    def spawning(p, vals, at):
      # play() called from inside a player thread: a child player.  Once
      # close() has begun play() raises by design: the generator survives it.
      for j, v in enumerate(vals):
        if j == at:
          cspec = {"kind": "list", "len": 3, "chunk_size": 2, "channels": 1,
                   "dfmt": "f", "use_global": False, "child_of": p}
          cidx = len(ctl["players"])
          try:
            ctl["players"].append(None)
            rt_specs.append(cspec)
            th = ctl["aio"].play(audio_values(cidx, cspec), chunk_size=2)
            ctl["players"][cidx] = th
            res.counters["probe.play-called-from-a-player-thread"] += 1
          except Exception:
            ctl["players"].pop()
            rt_specs.pop()
            res.counters["probe.child-play-refused-during-close"] += 1
        yield v

    def make_audio(p, spec):
      if obs and obs["what"] == "source-raises" and obs["player"] == p \
         and spec["kind"] != "rec":
        inner = dict(spec)
        vals = audio_values(p, inner, 12) if inner["kind"] == "periodic" \
          else audio_values(p, inner)
        return failing(iter(vals), obs["at"])
      if spec["kind"] == "rec":
        # input device looped to the output through the real RecStream
        lrec = ctl["aio"].record(chunk_size=spec["len"], dfmt=spec["dfmt"])
        ctl.setdefault("loop_rec", []).append(lrec)
        # the fake input device stream behind this recording
        ctl.setdefault("loop_in", {})[p] = \
          [st for st in world.streams if st.is_input][-1]
        if spec.get("rec_limit") is not None:
          res.counters["probe.recording-shaped-before-playback"] += 1
          if spec.get("rec_copy"):
            ctl.setdefault("rec_copies", []).append(lrec.copy())
          lrec.limit(spec["rec_limit"])
        return lrec
      if spec["kind"] == "list":
        vals = audio_values(p, spec)
        wrap = spec.get("wrap")
        if wrap:
          res.counters["probe.played-iterable-kind." + wrap] += 1
        if wrap == "stream":
          return lio.Stream(vals)
        if wrap == "hub1":          # a tee hub with exactly one use
          return _thub()(vals, 1)
        if wrap == "hub2":          # one of the two uses is taken elsewhere
          hub = _thub()(vals, 2)
          ctl.setdefault("hub_uses", []).append(lio.Stream(hub))
          return hub
        if wrap == "tuple":
          return tuple(vals)
        if wrap == "iter":
          return iter(vals)
        if wrap == "sequence":      # iterable through __getitem__ only
          return _GetItemOnly(vals)
        if wrap == "deque":         # a Sequence without slicing
          import collections
          return collections.deque(vals)
        if wrap == "array":
          import array
          return array.array("d" if spec["dfmt"] == "f" else "l", vals)
        if wrap == "userlist":
          import collections
          return collections.UserList(vals)
        if wrap == "dictkeys":      # a sized iterable that is no Sequence
          return dict((k, v) for k, v in enumerate(vals)).values()
        return vals
      if spec["kind"] == "gen":
        vals = audio_values(p, spec)
        if spec.get("spawn_at") is not None:
          return spawning(p, vals, spec["spawn_at"])
        return (v for v in vals)
      per = audio_values(p, spec, spec["len"])
      if len(per) == 1:
        return lio.Stream(per[0])
      return lio.Stream(*per)

    def do_script(aio):
      ctl["aio"] = aio
      if any(sp["kind"] == "rec" for sp in specs):
        res.counters["probe.input-looped-to-output"] += 1
      burst = 0
      for pos, op in enumerate(workload["script"]):
        ctl["pos"] = pos
        name = op[0]
        res.counters["op." + name] += 1
        if name == "idle":
          burst = 0
          sched.sleep(op[1], "idle")
          continue
        burst += 1
        if burst == 3:
          res.counters["fault.control-burst"] += 1
        if name == "gchunk":
          type(lio.chunks).size = op[1]
          res.counters["probe.default-chunk-size-changed-during-playback"] += 1
          continue
        if name == "play_bad":
          # a play() call that is refused: unknown sample format or a value
          # the backend rejects.  It must raise and change nothing else.
          before = len(world.history)
          try:
            if op[1] == "dfmt":
              aio.play([0., 0.], dfmt="d")        # not a PyAudio format
            else:
              aio.play([0., 0.], chunk_size=1, reject_me=True)
            outcome["bad_play_accepted"] = True
          except Exception:
            res.counters["probe.play-refused-with-bad-arguments"] += 1
          continue
        if name == "play":
          spec = op[1]
          p = len(ctl["players"])
          kw = {"dfmt": spec["dfmt"]}
          kw["nchannels" if spec.get("nch_kw") else "channels"] = \
            spec["channels"]
          if spec.get("rate"):
            kw["rate"] = spec["rate"]
          if spec.get("dev") is not None:
            kw["output_device_index"] = spec["dev"]
          if spec.get("extra_kw"):
            kw["start"] = True          # any other keyword goes to open()
          if not spec.get("use_global"):
            kw["chunk_size"] = spec["chunk_size"]
          if spec.get("daemon") is not None:
            kw["daemon"] = spec["daemon"]
          ctl["players"].append(None)
          rt_specs.append(spec)
          ctl["script_players"].append(p)
          th = aio.play(make_audio(p, spec), **kw)
          ctl["players"][p] = th
        elif name == "record":
          rkw = {"dfmt": op[1]["dfmt"]}
          if op[1].get("chunk_size") is not None:
            rkw["chunk_size"] = op[1]["chunk_size"]
          if op[1].get("rate"):
            rkw["rate"] = op[1]["rate"]
          if op[1].get("dev") is not None:
            rkw["input_device_index"] = op[1]["dev"]
          rec = aio.record(**rkw)
          ctl["rec"].append(rec)
          ctl.setdefault("rec_specs", []).append(
            (op[1], [st for st in world.streams if st.is_input][-1], rec))
          if not rec.recording:
            outcome["rec_flag"] = "recording is False right after record()"
        elif name == "rec_take":
          which = op[2] if len(op) > 2 else 0
          stopped = ctl.setdefault("rec_stopped_set", set())
          if which < len(ctl["rec"]) and which not in stopped:
            got = ctl["rec"][which].take(op[1])
            outcome.setdefault("rec_taken", []).extend(got)
        elif name == "loop_stop":
          loops = ctl.get("loop_rec", [])
          if op[1] < len(loops):
            loops[op[1]].stop()
            res.counters["probe.looped-recording-stopped"] += 1
        elif name == "rec_stop":
          # the user stops a recording without reading it to its end
          which = op[1] if len(op) > 1 else 0
          if which < len(ctl["rec"]):
            ctl["rec"][which].stop()
            ctl.setdefault("rec_stopped_set", set()).add(which)
            ctl["rec_stopped"] = True
            res.counters["probe.recording-stopped-before-close"] += 1
            if len(ctl["rec"]) > 1:
              res.counters["probe.two-recordings-open"] += 1
        else:
          pi = ctl["script_players"][op[1]]     # children shift the indexes
          th = ctl["players"][pi]
          if name == "pause":
            if th._sim_thread.state == "blocked" and \
               th._sim_thread.block_kind == "ev.wait":
              res.counters["probe.pause-while-already-paused"] += 1
            th.pause()
            ctl["paused"].add(pi)
          elif name == "resume":
            if pi in ctl["paused"] and \
               workload["script"][pos - 1] == ["pause", op[1]]:
              res.counters["probe.pause-immediately-resumed"] += 1
            th.play()
            ctl["paused"].discard(pi)
          elif name == "stop":
            st = th._sim_thread
            if st.state == "blocked" and st.block_kind == "ev.wait":
              res.counters["probe.stop-while-paused"] += 1
            th.stop()
            ctl["stopped"].add(pi)
      ctl["pos"] = len(workload["script"])

    def before_close(aio):
      for i, th in enumerate(ctl["players"]):
        if th is None:
          continue
        if th._sim_thread.state == "finished":
          ctl["finished_before_close"].add(i)
        elif th._sim_thread.state == "blocked" and \
            th._sim_thread.block_kind == "ev.wait":
          res.counters["probe.close-with-paused-player"] += 1
      if not ctl["players"]:
        res.counters["probe.close-with-zero-players"] += 1
      bound = 5000 + 400 * (finite_chunks + 2 * len(specs) + 4)
      sched.enter_phase2(bound)

    def main():
      if workload.get("gchunk"):
        type(lio.chunks).size = workload["gchunk"]
      api = workload.get("api")
      aio2 = None
      if workload.get("second_manager"):
        aio2 = lio.AudioIO(True)
        ctl["aio2_thread"] = aio2.play([9.5, 8.5, 7.5], chunk_size=2)
        res.counters["probe.two-managers-alive"] += 1
      aio = lio.AudioIO(workload["wait"], api=api) if api else \
        lio.AudioIO(workload["wait"])
      ctx = workload["ctx"]
      if ctx == "with-exc":
        # the with-block is left through an exception
        class _Boom(Exception):
          pass
        try:
          with aio as a2:
            do_script(a2)
            before_close(aio)
            raise _Boom()
        except _Boom:
          pass
      elif ctx == "with":
        with aio as a2:
          do_script(a2)
          before_close(aio)
      else:
        do_script(aio)
        before_close(aio)
        if ctx == "terminate":
          aio.terminate()
        else:
          aio.close()
      sched.leave_phase2()
      outcome["close_returned_at"] = len(world.history)
      if aio2 is not None:
        outcome["aio2_alive_after_first_close"] = \
          world.managers[0].terminated == 0
        aio2.close()
        aio2.finished = True
        outcome["close_returned_at"] = len(world.history)
      # (the scheduler's own knowledge, not th.is_alive(): code that
      # disturbs the Thread object's private state must not fool the oracle)
      outcome["alive_after_close"] = [
        i for i, th in enumerate(ctl["players"])
        if th is not None and getattr(th, "_sim_thread", None) is not None
        and th._sim_thread.state != "finished"]
      outcome["writes_at_close"] = [len(th.stream.writes) if th is not None
                                    else 0 for th in ctl["players"]]
      outcome["threads_left"] = len(getattr(aio, "_threads", ()))
      if workload["after"].get("close2"):
        before = len(world.history)
        aio.close()
        outcome["close2_events"] = len(world.history) - before
      if workload["after"].get("play_after"):
        before = len(world.history)
        outcome["play_after"] = "raised"
        for _ in range(2):            # and again: it must keep raising
          try:
            aio.play([0.0, 0.0], chunk_size=1)
            outcome["play_after"] = "accepted"
          except Exception as exc:
            pass
        outcome["play_after_events"] = len(world.history) - before
      return True

    violation = None
    specified_wait = False
    try:
      try:
        sched.run(main)
      finally:
        backend.set_world(None)
        type(lio.chunks).size = old_size
        for obj in [ctl["aio"]]:
          if obj is not None:
            try:
              obj.finished = True
            except Exception:
              pass
    except threads.SimFailure as sf:
      violation = sf.violation
      if violation.klass in ("deadlock", "no-progress") and sched.phase == 2:
        violation = Violation("close-hang:" + violation.klass,
                              violation.signature, violation.detail)
      if violation.klass == "close-hang:deadlock" and \
         workload.get("parked_ok") and workload["wait"] and \
         violation.signature == "main@join(P)|P@ev.wait":
        # close(wait=True) waits for players that the script paused and
        # never resumed or stopped: the specified behaviour, not a hang
        legit = True
        for t in sched.threads:
          if t is sched.main or t.state == "finished":
            continue
          idx = [i for i, th in enumerate(ctl["players"])
                 if th is not None and getattr(th, "_sim_thread", None) is t]
          if not idx or idx[0] not in ctl["paused"] or \
             idx[0] in ctl["stopped"]:
            legit = False
        if legit:
          # "closing the manager always returns" - it does not: nobody is
          # left to resume the player.  A genuine defect of the library
          # with no small safe repair (resume? stop? - the maintainers'
          # call): the known finding C17-close-wait-true-paused-player of
          # known_findings.json, identified by exactly this shape
          violation = Violation(
            "close-hang:deadlock",
            "wait-true:script-paused-player:" + violation.signature,
            "close(wait=True) never returns: it joins a player that the "
            "script paused and neither resumed nor stopped; the player is "
            "parked in go.wait() and nothing will ever set the event")
          res.counters["probe.close-waits-for-a-parked-player"] += 1
    except HarnessError:
      raise
    except Exception as exc:
      # an exception out of the control script: play/pause/... raised
      import traceback
      violation = Violation("control-call-raised",
                            "%s:%s" % (type(exc).__name__,
                                       self._op_at(workload, ctl["pos"])),
                            traceback.format_exc()[-1500:])

    if workload.get("observe"):
      # failing sources / devices are outside the statement: record what the
      # code does, judge nothing
      crashed = any(t.crashed is not None for t in sched.threads)
      if sched.budget_exhausted:
        how = "step budget exhausted before close"
      elif violation is None:
        how = "close returned"
      elif "no-progress" in violation.klass or "bound" in violation.klass:
        how = "close never returns (the dead player is never deregistered)"
      else:
        how = violation.klass
      res.observations.append("%s: player thread %s, %s"
                              % (workload["observe"]["what"],
                                 "died" if crashed else "survived", how))
      violation = None
    elif violation is None and not sched.budget_exhausted and \
         not specified_wait:
      violation = self.judge(workload, rt_specs, ctl, world, outcome, sched)
    res.violation = violation

    # ------------------------------------------------------------ accounting
    self.runs_done += 1
    if self.runs_done % 200 == 0:
      gc.collect()
    for k, v in sched.counters.items():
      res.counters[k] += v
    res.counters["context-switches"] += sched.switches
    res.counters["preemptions"] += sched.preemptions
    res.counters["strategy." + knobs.get("strategy", "?")] += 1
    if sched.budget_exhausted:
      res.counters["budget-exhausted-runs"] += 1
    frames = 0
    for st in world.streams:
      for data, nframes in st.writes:
        frames += nframes or 0
    res.counters["device-frames-written"] += frames
    res.counters["sim-time-units"] += sched.steps     # incl. clock jumps
    res.counters["sim-device-milliseconds"] += int(frames * 1000 / 44100)
    self._probes(res, sched, world, ctl, workload)
    if getattr(self, "_judge_probes", {}).get("writes-after-stop"):
      res.counters["probe.chunk-in-flight-when-stop-returned"] += 1
    self._judge_probes = {}
    res.steps = sched.work
    res.digest = digest_events(sched.events)
    ikey = stable_hash(tuple(sched.interleaving))
    if ctl["players"] and sched.switches >= 2:
      res.nontrivial_key = ikey
    res.states = [stable_hash(s) for s in sched.states]
    if want_sample:
      res.sample = {
        "script": self.decode(workload), "wait": workload["wait"],
        "ctx": workload["ctx"],
        "knobs": {k: v for k, v in sorted(knobs.items())
                  if not callable(v)},
        "schedule_tail": sched.events[-25:],
        "device_history": [[s, k, sid] for s, k, sid, _ in
                           world.history[-30:]],
        "steps": sched.work, "sim_time": sched.steps,
        "switches": sched.switches}
    return res

  @staticmethod
  def _op_at(workload, pos):
    sc = workload["script"]
    return sc[pos][0] if 0 <= pos < len(sc) else "epilogue"

  def decode(self, workload):
    out = []
    for op in workload["script"]:
      if op[0] == "play":
        sp = op[1]
        out.append("play(%s len=%d, chunk_size=%s, channels=%d, dfmt=%r)"
                   % (sp["kind"], sp["len"],
                      "chunks.size=%s" % sp["chunk_size"]
                      if sp.get("use_global") else sp["chunk_size"],
                      sp["channels"], sp["dfmt"]))
      elif op[0] in ("pause", "resume", "stop"):
        out.append("%s(player%d)" % (op[0], op[1]))
      elif op[0] == "play_bad":
        out.append("play(<bad %s>) -> must raise" % op[1])
      else:
        out.append("%s(%r)" % (op[0], op[1]))
    out.append({"close": "close()", "terminate": "terminate()",
                "with": "leave with-block", "with-exc":
                "leave with-block through an exception"}[workload["ctx"]])
    if workload["after"].get("close2"):
      out.append("close() again")
    if workload["after"].get("play_after"):
      out.append("play() after close")
    return out

  # ------------------------------------------------------------------ oracle
  def judge(self, workload, specs, ctl, world, outcome, sched):
    V = Violation
    res_probe = self._judge_probes = {}
    for st in world.streams:
      if st.write_while_stopped:
        return V("device-protocol", "write-on-stopped-stream",
                 "stream s%d was written to %d times while stopped (a "
                 "PortAudio backend refuses that: the chunk is lost)"
                 % (st.sid, st.write_while_stopped))
    # a player thread that crashed lost samples for sure
    for t in sched.threads:
      if t.crashed is not None:
        return V("player-crashed", type(t.crashed).__name__,
                 "%s: %r" % (t.role, t.crashed))
    hist = world.history
    # --- per player stream: framing, content, order
    for p, th in enumerate(ctl["players"]):
      if th is None:
        continue
      spec = specs[p]
      st = th.stream
      cs, ch, fmt = spec["chunk_size"], spec["channels"], spec["dfmt"]
      per = cs * ch
      # what the device believes it is receiving: the arguments of open()
      okw = st.kwargs
      dev_fmt = {1: "f", 2: "i", 8: "h", 16: "b", 32: "B"}.get(
        okw.get("format"))
      dev_ch = okw.get("channels")
      want_rate = spec.get("rate") or 44100
      want_dev = 3 if workload.get("api") else None   # fake JACK's default
      if spec.get("dev") is not None:
        want_dev = spec["dev"]                        # explicit index wins
      if dev_fmt != fmt or dev_ch != ch or not okw.get("output") or \
         okw.get("frames_per_buffer") != cs or okw.get("input") or \
         okw.get("rate") != want_rate or \
         okw.get("output_device_index") != want_dev or \
         bool(okw.get("start")) != bool(spec.get("extra_kw")):
        return V("framing", "device-opened-differently",
                 "player%d asked for dfmt=%r channels=%d chunk_size=%d, the "
                 "device stream was opened with %r"
                 % (p, fmt, ch, cs, dict((k, okw[k]) for k in sorted(okw))))
      decoded = []
      for wi, (data, nframes) in enumerate(st.writes):
        if nframes != cs:
          return V("framing", "nframes", "player%d write %d: %r frames, "
                   "chunk_size %d" % (p, wi, nframes, cs))
        if len(data) != nframes * dev_ch * SIZEOF[dev_fmt]:
          return V("framing", "chunk-bytes", "player%d write %d: %d bytes, "
                   "%d frames of %d channels of %r need %d"
                   % (p, wi, len(data), nframes, dev_ch, dev_fmt,
                      nframes * dev_ch * SIZEOF[dev_fmt]))
        decoded.extend(struct.unpack("%d%s" % (per, fmt), data))
      nwr = len(st.writes)
      if spec["kind"] == "rec" and p in ctl.get("loop_in", {}):
        # the iterable is what the input device has delivered (a recording
        # that was stopped ends; the last chunk is then padded with zeros)
        whole = None
        avail = audio_values(p, spec, ctl["loop_in"][p].reads * spec["len"])
        if spec.get("rec_limit") is not None:
          # a finite piece of the recording: all of it must be played
          full = audio_values(p, spec, spec["rec_limit"])
          whole = full + [0] * ((-len(full)) % per)
          expect = whole[:len(decoded)]
        else:
          expect = (avail + [0] * ((-len(avail)) % per))[:len(decoded)]
      elif spec["kind"] in ("periodic", "rec"):
        whole = None
        expect = audio_values(p, spec, len(decoded))
      else:
        vals = audio_values(p, spec)
        pad = (-len(vals)) % per
        whole = vals + [0] * pad
        expect = whole[:len(decoded)]
      if len(decoded) > len(expect) or decoded != expect[:len(decoded)]:
        kind = "content"
        if sorted(decoded) == sorted(expect):
          kind = "reordered"
        elif len(decoded) > len(expect):
          kind = "extra-data"
        return V("samples", kind, "player%d delivered %r, expected prefix of "
                 "%r" % (p, decoded[:40], expect[:40]))
      must_be_whole = whole is not None and p not in ctl["stopped"] and \
        (workload["wait"] or p in ctl["finished_before_close"])
      if must_be_whole and len(decoded) != len(whole):
        return V("samples", "lost-tail" if workload["wait"] else
                 "lost-tail-finished-player",
                 "player%d delivered %d of %d samples although never stopped "
                 "(wait=%r)" % (p, len(decoded), len(whole),
                                workload["wait"]))
      mark = getattr(th, "_stop_returned_at", None)
      if mark is not None:
        late = sum(1 for sq, k, sid, _ in hist
                   if k == "write" and sid == st.sid and sq >= mark)
        if late > 2:
          # after stop() has returned the player may finish the chunk in
          # flight and at most the one it had already decided to write
          return V("not-prompt", "chunks-written-after-stop-returned",
                   "player%d wrote %d more chunks after stop() had returned "
                   "(device event %d)" % (p, late, mark))
        if late:
          res_probe["writes-after-stop"] = True
      if st.write_after_close:
        return V("device-protocol", "write-after-close",
                 "player%d wrote %d chunks after its stream was closed"
                 % (p, st.write_after_close))
      if outcome.get("writes_at_close", [nwr] * (p + 1))[p] != nwr:
        return V("device-protocol", "write-after-manager-close",
                 "player%d wrote after close() returned" % p)
    # --- the second manager is independent of the first
    th2 = ctl.get("aio2_thread")
    if th2 is not None:
      got = []
      for data, nframes in th2.stream.writes:
        got.extend(struct.unpack("%df" % (len(data) // 4), data))
      if got != [9.5, 8.5, 7.5, 0.0] or th2.stream.closed != 1 or \
         outcome.get("aio2_alive_after_first_close") is False:
        return V("shutdown", "second-manager-disturbed",
                 "the other manager's player delivered %r, its stream was "
                 "closed %d times, terminated early: %r"
                 % (got, th2.stream.closed,
                    outcome.get("aio2_alive_after_first_close") is False))
    # --- recording streams: what the input device was opened with
    for rspec, rst, rec in ctl.get("rec_specs", []):
      okw = rst.kwargs
      cs = rspec.get("chunk_size") or rspec.get("gdef") or \
        (workload.get("gchunk") or 2048)
      want_dev = rspec["dev"] if rspec.get("dev") is not None else \
        (2 if workload.get("api") else None)          # fake JACK's input
      fmtcode = {"f": 1, "i": 2, "h": 8, "b": 16, "B": 32}[rspec["dfmt"]]
      if okw.get("format") != fmtcode or okw.get("channels") != 1 or \
         not okw.get("input") or okw.get("output") or \
         okw.get("frames_per_buffer") != cs or \
         okw.get("rate") != (rspec.get("rate") or 44100) or \
         okw.get("input_device_index") != want_dev:
        return V("framing", "input-device-opened-differently",
                 "record(%r) opened the input device with %r"
                 % (rspec, dict((k, okw[k]) for k in sorted(okw))))
      if rec.recording:
        return V("shutdown", "recording-flag-still-true",
                 "a RecStream still reports recording after close()")
    if outcome.get("rec_flag"):
      return V("framing", "recording-flag", outcome["rec_flag"])
    # --- after close returned
    for st in world.streams[:]:
      opened_before = any(k == "open" and sid == st.sid and
                          s < outcome.get("close_returned_at", 0)
                          for s, k, sid, _ in hist)
      if opened_before and st.closed != 1:
        return V("shutdown", "stream-closed-%d-times" % st.closed,
                 "device stream s%d (%s) closed %d times"
                 % (st.sid, "input" if st.is_input else "output", st.closed))
    for m in world.managers:
      if m.terminated != 1:
        return V("shutdown", "terminated-%d-times" % m.terminated,
                 "backend terminated %d times" % m.terminated)
    cra = outcome.get("close_returned_at", 0)
    for m in world.managers:
      tseq = [sq for sq, k, sid, _ in hist
              if k == "terminate" and sid == "m%d" % m.mid]
      mine = set(st.sid for st in world.streams if st.manager is m)
      cseq = [sq for sq, k, sid, _ in hist if k == "close" and sid in mine]
      if tseq and any(tseq[0] < c < cra for c in cseq):
        return V("shutdown", "terminate-before-last-close",
                 "terminate at event %d, a stream of the same manager closed "
                 "later" % tseq[0])
      if tseq and tseq[0] >= cra:
        return V("shutdown", "terminate-after-close-returned", "")
    if outcome.get("alive_after_close"):
      return V("shutdown", "player-alive-after-close",
               "players %r alive" % outcome["alive_after_close"])
    if outcome.get("threads_left"):
      return V("shutdown", "threads-list-not-empty",
               "%d entries left in _threads" % outcome["threads_left"])
    if outcome.get("close2_events"):
      return V("shutdown", "second-close-not-idempotent",
               "%d device events during the second close"
               % outcome["close2_events"])
    if workload["after"].get("play_after"):
      if outcome.get("play_after") != "raised":
        return V("shutdown", "play-after-close-accepted", "")
      if outcome.get("play_after_events"):
        return V("shutdown", "play-after-close-touched-device",
                 "%d device events" % outcome["play_after_events"])
    # every simulated thread must be finished
    for t in sched.threads:
      if t is not sched.main and t.state != "finished":
        return V("shutdown", "player-alive-after-close", t.role)
    return None

  def _probes(self, res, sched, world, ctl, workload):
    c = res.counters
    ends = [i for i, ev in enumerate(sched.events) if " end player" in ev]
    if len(ends) >= 2 and min(b - a for a, b in zip(ends, ends[1:])) <= 6:
      c["probe.two-players-finish-in-same-window"] += 1
    if sched.counters.get("lock-contended"):
      c["probe.lock-contention"] += 1
    if sched.counters.get("event-waits-blocked"):
      c["probe.player-parked-in-go.wait"] += 1
    p2 = None
    for i, ev in enumerate(sched.events):
      if " phase2 " in ev:
        p2 = i
    if p2 is not None and any(" end player" in ev
                              for ev in sched.events[p2:]):
      c["probe.player-finishes-during-close"] += 1
    if sched.counters.get("clock-jumps"):
      c["probe.clock-jump"] += 1


PROPERTY = C17
