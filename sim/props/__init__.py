# -*- coding: utf-8 -*-
""" Property plug-ins; load("C17") returns a fresh Property instance. """
import importlib

_MODULES = {"C02": "c02", "C03": "c03", "C06": "c06", "C15": "c15",
            "C16": "c16", "C17": "c17"}


def load(name):
  from ..kernel import HarnessError
  key = name.upper()
  if key not in _MODULES:
    raise HarnessError("property %s is not claimed (see MANIFEST.json "
                       "not_applicable)" % name)
  mod = importlib.import_module("." + _MODULES[key], __name__)
  return mod.PROPERTY()
