# -*- coding: utf-8 -*-
"""
C02 - Everything is lazy: no read before demand, bounded read per output.

Engine B: every stage is built by the real code on top of simulator-owned
sources (finite with seeded EOF, endless, raising when read far beyond the
allowed bound); the simulator is also the consumer: a seeded demand schedule
of next / take(k) / peek(k) steps over the endpoints (several when the
pipeline fans out through copy / tee / thub).  For every real pipeline a
reference pipeline of minimal-read generators is built over counting model
sources with the same values and driven by the same schedule; after
construction and after every demand step

      delivered_real(source_i) <= delivered_model(source_i)   for every i.

The bound is an upper bound: a lazier implementation is never flagged.
"""
import signal

from ..dataflow import SimSource, SimStall
from ..kernel import (Property, RunResult, Violation, stable_hash,
                      digest_events)
from ..models import lazy_need as M
from .c02_stages import STAGES, ORDER
from .util import drop_candidates

HANG_SECONDS = 60
# Stream methods that change the object they are called on and return it
IN_PLACE = ("skip", "limit", "append", "map", "filter")
# stages with a fixed operand of p["n"] items that is not a source
FIXED_OPERAND_STAGES = ("add_list", "radd_list", "mul_gen")


class _Hang(BaseException):
  pass


def _on_alarm(signum, frame):
  raise _Hang()


class _Mismatch(Exception):
  def __init__(self, what, detail):
    Exception.__init__(self, detail)
    self.what, self.detail = what, detail


class _NS(object):
  pass


class Tap(object):
  """
  Transparent pass-through placed between two real stages: one next() in,
  one next() out.  It only notices the first time an end travels downstream.
  """
  __slots__ = ("inner", "on_end")

  def __init__(self, inner, on_end):
    self.inner, self.on_end = iter(inner), on_end

  def __iter__(self):
    return self

  def __next__(self):
    try:
      return next(self.inner)
    except StopIteration:
      self.on_end(None)
      raise

  next = __next__


def adapt_input(P, x, how):
  """ Transparent one-to-one adapters: the type a stage sees varies. """
  if how == "stream":
    return x if isinstance(x, P.ls.Stream) else P.ls.Stream(x)
  if how == "hub1":
    return P.ls.thub(x if isinstance(x, P.ls.Stream) else P.ls.Stream(x), 1)
  if how == "gen":
    return (v for v in x)
  if how == "iterable":     # iterable, not an iterator: one-pass underneath
    return _IterableOnly(x)
  return x


class _HubPeekEnd(object):
  """ Endpoint that is a StreamTeeHub object: only peek() makes sense. """
  __slots__ = ("hub",)

  def __init__(self, hub):
    self.hub = hub

  def peek(self, k):
    return self.hub.peek(k)


class _IterableOnly(object):
  __slots__ = ("inner",)

  def __init__(self, inner):
    self.inner = inner

  def __iter__(self):
    return iter(self.inner)


class _Starved(BaseException):
  """ A selector over an endless source never finds its next item. """


MODEL_READ_CAP = 4000
# exceptions that cannot come from the sample values the simulator feeds
# (math domain / overflow / division errors can, and are not judged)
PROGRAM_ERRORS = ("NameError", "UnboundLocalError", "RuntimeError",
                  "IndexError", "KeyError", "AssertionError", "ImportError",
                  "ModuleNotFoundError")     # not TypeError / AttributeError:
# heterogeneous sample values (complex, str, tuples) can cause those


def src_value(kind, sid, i):
  if kind == "zeros":          # silence first, then signed small values
    return 0 if i < 4 + sid % 3 else (-1) ** i * (1 + (i * 7 + sid) % 5)
  if kind == "alt":            # alternating sign, small magnitude
    return (-1) ** (i + sid) * ((i * 3 + sid) % 4)
  if kind == "step":           # dyadic step sizes for a time-varying resample
    return [0.5, 1.0, 0.25, 2.0, 1.5, 0.75][(sid + i) % 6]
  if kind == "param":
    return 0.1 + ((sid * 3 + i) % 9) * 0.125
  if kind == "wnd":
    return 1.0 + (i % 2)
  if kind == "sel":
    return ((sid + i * i) % 3) != 0
  return sid * 1000 + i


class C02(Property):
  id = "C02"
  engine = "dataflow"
  rule = ("seeded pipelines of depth 1-3 drawn from a registry of %d stage "
          "families (Stream operators/methods, itertools wrappers, filter "
          "calls incl. time-varying, cascade/parallel filters, blockenizers, "
          "analysis tools, mixer, resampler, overlap-add, STFT wrapper, "
          "record stream) over finite/endless simulator-owned sources, "
          "optional fan-out (copy/tee/thub, a hub object peeked through a "
          "spare use) with per-endpoint tail stages and stages built late on "
          "endpoints that already served demand, driven by a seeded demand "
          "schedule (next / take / peek / plain iteration, rarely hundreds of "
          "items at once); reads compared with an "
          "executed minimal-read reference pipeline after construction and "
          "after every step. distinct = distinct (pipeline, sources, demand "
          "schedule) digest; non-trivial = depth >= 2 or fan-out or a source "
          "ended or a block / look-ahead stage is present" % len(STAGES))
  components = {"real": ["every stage constructor named in the registry "
                         "(audiolazy.lazy_stream, lazy_itertools, "
                         "lazy_filters, lazy_analysis, lazy_misc, lazy_poly, "
                         "lazy_auditory, lazy_io.chunks/RecStream)"],
                "stub": ["sources: SimSource (counts reads, seeded EOF, "
                         "endless, over-read stall)", "for RecStream: fake "
                         "PyAudio input device"]}
  assumptions = [
    "the minimal-read reference generators of models/lazy_need.py are the "
    "specification of 'what a stage needs' (table in DESIGN.md 4/C02)",
    "upper bound only: reading less is never flagged",
    "multi-reader sample-wise stages may read one extra item per reader at "
    "the terminal attempt; Python's own itertools semantics are mirrored",
    "the demand schedule stops after the first step in which a source, a "
    "reference stage or an endpoint reaches its end (repeated terminal "
    "attempts through Python's tee/map/zip objects are Python's semantics)"]

  def setup(self):
    from audiolazy import (lazy_stream, lazy_itertools, lazy_filters,
                           lazy_analysis, lazy_misc, lazy_poly,
                           lazy_auditory, lazy_io, lazy_math, lazy_synth,
                           lazy_midi, lazy_lpc)
    P = _NS()
    P.ls, P.lit, P.lf, P.la = (lazy_stream, lazy_itertools, lazy_filters,
                               lazy_analysis)
    P.lm, P.lp, P.lau, P.lio, P.lmath = (lazy_misc, lazy_poly, lazy_auditory,
                                         lazy_io, lazy_math)
    P.lsy, P.lmidi, P.llpc = lazy_synth, lazy_midi, lazy_lpc
    self.P = P
    import sys
    sys.unraisablehook = lambda *a: None

  def budget(self, tier):
    return (300000, 60.0) if tier == "quick" else (20000000, 780.0)

  # ---------------------------------------------------------------- workload
  def gen_workload(self, W, index):
    srcs = {}

    def new_src(kind):
      sid = len(srcs) + 1
      if kind == "num":        # value flavour: tagged, silence-first, signed
        kind = W.weighted("flavour", [(6, "num"), (2, "zeros"), (2, "alt")])
      ln = None if W.chance("endless", 1, 3) else W.choose("slen", 25)
      srcs[str(sid)] = {"kind": kind, "len": ln}
      return sid

    def gen_chain(depth, cur_type="num", exact=True, first=None):
      node = {"src": new_src("num")} if first is None else first
      for _ in range(depth):
        cands = [(STAGES[n]["weight"], n) for n in ORDER
                 if STAGES[n]["cons"] == cur_type and
                 (not STAGES[n]["sel"] or exact)]
        if not cands:
          break
        name = W.weighted("stage", cands)
        st = STAGES[name]
        p = st["params"](W)
        extra = st["extra"]
        if extra == "var-num":
          extra = ("num",) * (len(p["deltas"]) - 1)
        ins = [node]
        for k in extra:
          sid = new_src(k)
          if k == "wnd":       # a window iterable has exactly ``size`` items
            srcs[str(sid)]["len"] = p["size"]
          ins.append({"src": sid})
        node = {"st": name, "p": p, "in": ins,
                # how each input is handed over: as it is, wrapped in a
                # Stream, through a single-use thub, or through a generator
                "adapt": [W.weighted("adapt", [(5, "raw"), (2, "stream"),
                                               (1, "hub1"), (1, "gen"),
                                               (1, "iterable")])
                          for _ in ins]}
        exact = exact and st["exact"]
        cur_type = st["prod"]
      return node, cur_type, exact

    if W.chance("record", 1, 60):
      return {"srcs": {}, "base": {"rec": {"chunk_size": W.pick("rcs", [
        1, 2, 3, 4, 8])}}, "fan": "none", "tails": [None]}
    depth = W.weighted("depth", [(4, 1), (3, 2), (2, 3)])
    base, typ, exact = gen_chain(depth)
    fan = W.weighted("fan", [(5, "none"), (2, "copy"), (2, "tee"),
                             (2, "thub")])
    nend = 1
    tails = [None]
    ends = [[typ, exact]]          # what every endpoint carries
    if fan != "none":
      nend = 2 if fan == "copy" else W.span("nfan", 2, 3)
      tails = []
      ends = []
      for _ in range(nend):
        if typ == "num" and W.chance("tail", 1, 2):
          cands = [(STAGES[n]["weight"], n) for n in ORDER
                   if STAGES[n]["cons"] == "num" and not STAGES[n]["extra"]
                   and (not STAGES[n]["sel"] or exact)]
          name = W.weighted("tstage", cands)
          tails.append({"st": name, "p": STAGES[name]["params"](W)})
          ends.append([STAGES[name]["prod"], exact and STAGES[name]["exact"]])
        else:
          tails.append(None)
          ends.append([typ, exact])
    wl = {"srcs": srcs, "base": base, "fan": fan, "tails": tails,
          "hub_spare": fan == "thub" and W.chance("hub-spare", 1, 3),
          # the same pipeline built twice over separate sources: state
          # kept outside the stage objects (caches, module globals) shows
          "twin": W.chance("twin", 1, 5)}
    # stages built LATE: after some demand has already been served, another
    # stage is put on top of an endpoint object that has a history (peeked,
    # partly consumed); building it must read nothing either
    if W.chance("deep", 1, 150):
      # a few demands of hundreds of outputs: whatever a stage accumulates
      # or switches over to after a warm-up
      wl["deep"] = W.pick("deepk", [30, 70])
    late = []
    if W.chance("late", 1, 3):
      at = 0
      for _ in range(W.span("nlate", 1, 3)):
        at += 1 + W.choose("late_gap", 3)
        e = W.choose("late_e", nend)
        if ends[e][0] != "num":
          continue
        cands = [(STAGES[n]["weight"] + (6 if n in IN_PLACE else 0), n)
                 for n in ORDER
                 if STAGES[n]["cons"] == "num" and not STAGES[n]["extra"]
                 and (not STAGES[n]["sel"] or ends[e][1])]
        name = W.weighted("lstage", cands)
        late.append({"at": at, "e": e, "st": name,
                     "p": STAGES[name]["params"](W)})
        ends[e] = [STAGES[name]["prod"], ends[e][1] and STAGES[name]["exact"]]
    if late:
      wl["late"] = late
    if wl.get("deep"):
      # soundness rule 2 (fixed, non-source operands never run out before the
      # demand does) must hold for demands of hundreds of items as well
      def bump(node):
        if isinstance(node, dict):
          if node.get("st") in FIXED_OPERAND_STAGES and \
             isinstance(node.get("p"), dict) and "n" in node["p"]:
            node["p"]["n"] += 60000
          for v in node.values():
            bump(v)
        elif isinstance(node, list):
          for v in node:
            bump(v)
      bump(wl["base"])
      bump(wl["tails"])
      bump(wl.get("late") or [])
    return wl

  def shrink_candidates(self, wl):
    # drop the fan-out, drop tails, peel stages, shorten sources
    if wl["fan"] != "none":
      c = dict(wl)
      c["fan"], c["tails"] = "none", [None]
      yield c
    for i, t in enumerate(wl["tails"]):
      if t is not None:
        c = dict(wl)
        c["tails"] = list(wl["tails"])
        c["tails"][i] = None
        yield c
    for i in range(len(wl.get("late") or [])):
      c = dict(wl)
      c["late"] = wl["late"][:i] + wl["late"][i + 1:]
      yield c
    base = wl["base"]
    if "late" in wl:
      pass          # peeling would change what the late stages consume
    elif "st" in base and "st" in base["in"][0]:
      c = dict(wl)
      c["base"] = base["in"][0]          # peel the outer stage
      yield c
      inner = base["in"][0]
      if STAGES[base["st"]]["cons"] == "num" and "src" in inner["in"][0]:
        c = dict(wl)                     # drop the inner stage
        c["base"] = dict(base)
        c["base"]["in"] = [inner["in"][0]] + base["in"][1:]
        yield c
    for sid in sorted(wl["srcs"]):
      v = wl["srcs"][sid]["len"]
      for nv in ([12] if v is None else [x for x in (0, v // 2, v - 1)
                                         if 0 <= x < v]):
        c = dict(wl)
        c["srcs"] = dict((k, dict(s)) for k, s in wl["srcs"].items())
        c["srcs"][sid]["len"] = nv
        yield c

  def corpus(self):
    def src(i):
      return {"src": i}

    def one(name, p, n_extra=0, ln=None, fan="none", tails=None, inner=None):
      srcs = {"1": {"kind": "num", "len": ln}}
      ins = [inner or src(1)]
      kinds = STAGES[name]["extra"]
      if kinds == "var-num":
        kinds = ("num",) * n_extra
      for k in kinds:
        sid = len(srcs) + 1
        srcs[str(sid)] = {"kind": k, "len": ln}
        ins.append(src(sid))
      return {"srcs": srcs, "base": {"st": name, "p": p, "in": ins},
              "fan": fan, "tails": tails or [None]}
    blk = {"size": 4, "hop": 2}
    return [
      one("blocks", blk),
      one("blocks", {"size": 3, "hop": 5}, ln=17),
      one("stream_blocks", {"size": 4, "hop": None}, ln=10),
      one("overlap_add", dict(blk, wnd=None, norm=True, auto=False)),
      one("overlap_add", dict(blk, wnd="tri", norm=True, auto=True), ln=11),
      one("stft", dict(blk, wnd=None, norm=False, auto=False, ola=True)),
      one("stft_no_ola", dict(blk, wnd="ones", norm=True, auto=False,
                              ola=False)),
      one("resample", {"old": 1, "new": 2, "order": 3}),
      one("resample", {"old": 3, "new": 2, "order": 2}, ln=9),
      one("resample", {"old": 1, "new": 4, "order": 5}),
      one("parallel", {"n": 3}),
      one("parallel", {"n": 0}),
      one("zfilter", {"f": "iir"}, fan="thub", tails=[None, None]),
      one("tv_product", {}),
      one("lowhigh_stream_cutoff", {"w": "lowpass", "k": "pole"}),
      one("mixer", {"deltas": [0, 2, 1.25], "keep": False}, n_extra=2),
      one("neg", {}, fan="copy", tails=[None, {"st": "zfilter",
                                               "p": {"f": "fir"}}]),
      one("map", {}, fan="tee", tails=[None, None, None]),
      one("groupby", {"g": 3}, ln=20),
      one("islice", {"start": 2, "stop": 9, "step": 3}),
      one("zero_pad", {"l": 3, "r": 2}, ln=4),
      one("cycle", {}, ln=3),
      one("envelope", {"k": "rms"}),
      one("maverage", {"k": "deque", "n": 3}),
      one("gammatone", {"k": "klapuri"}),
      one("blk_map_sum", {}, inner={"st": "blocks", "p": blk,
                                    "in": [src(1)]}),
      {"srcs": {}, "base": {"rec": {"chunk_size": 4}}, "fan": "none",
       "tails": [None]},
    ]

  def extra_schedules(self):
    return 5

  # --------------------------------------------------------------------- run
  def run(self, workload, S, want_sample=False):
    res = RunResult()
    events = []
    info = {"nontrivial": False, "demand": []}
    try:
      self._run(workload, S, res, events, info)
    except _Mismatch as mm:
      res.violation = Violation("laziness", mm.what, mm.detail)
    res.digest = digest_events(events)
    if info["nontrivial"]:
      res.nontrivial_key = stable_hash((workload, info["demand"]))
    if want_sample:
      res.sample = {"pipeline": self.describe(workload),
                    "sources": workload["srcs"], "trace": events[:40]}
    return res

  def describe(self, wl):
    def d(node):
      if "src" in node:
        return "src%d" % node["src"]
      if "rec" in node:
        return "AudioIO.record(chunk_size=%d)" % node["rec"]["chunk_size"]
      args = ", ".join(d(n) for n in node["in"])
      ps = ", ".join("%s=%r" % kv for kv in sorted(node["p"].items()))
      return "%s(%s%s)" % (node["st"], args, "; " + ps if ps else "")
    s = d(wl["base"])
    if wl["fan"] != "none":
      s += " -> %s x%d" % (wl["fan"], len(wl["tails"]))
      s += " -> [%s]" % ", ".join(t["st"] if t else "-" for t in wl["tails"])
    return s

  def _guarded(self, what, fn):
    """ Runs a call into the real code under the hang guard. """
    signal.signal(signal.SIGALRM, _on_alarm)
    signal.alarm(HANG_SECONDS)
    try:
      return ("ok", fn())
    except _Hang:
      raise _Mismatch("hang", "%s did not return within %d s" %
                      (what, HANG_SECONDS))
    except SimStall as st:
      return ("stall", str(st))
    except StopIteration:
      return ("end", None)
    except Exception as exc:
      return ("raise", "%s: %s" % (type(exc).__name__, exc))
    finally:
      signal.alarm(0)

  def _run(self, wl, S, res, events, info):
    P = self.P
    if "rec" in wl["base"]:
      return self._run_record(wl, S, res, events, info)
    real_src, model_src = {}, {}
    self.frozen = None

    def on_eof(src):
      # Reads made after the first end travelled through the real pipeline (a
      # source or a stage ran out) are not judged: from there on Python's
      # own iterator objects (tee, map, zip) and stages that poll an
      # exhausted iterator again may legitimately touch the other readers
      # once more per terminal attempt.
      if self.frozen is None:
        self.frozen = dict((sid, s.delivered) for sid, s in real_src.items())
    offsets = [0, 100] if wl.get("twin") else [0]
    for sid_s, spec in sorted(wl["srcs"].items()):
      for off in offsets:
        sid = int(sid_s) + off
        vf = (lambda i, k=spec["kind"], s=int(sid_s): src_value(k, s, i))
        real_src[sid] = SimSource(sid, spec["len"], vf)
        model_src[sid] = SimSource(sid, spec["len"], vf)
        model_src[sid].budget, model_src[sid].slack = MODEL_READ_CAP, 0
        real_src[sid].budget, real_src[sid].slack = 0, 48
        real_src[sid].on_eof = on_eof
      if spec["len"] is None:
        res.counters["fault.endless"] += 1
    used = []

    def build(node, real, off=0):
      if "src" in node:
        if real and node["src"] + off not in used:
          used.append(node["src"] + off)
        return (real_src if real else model_src)[node["src"] + off]
      st = STAGES[node["st"]]
      ins = [build(n, real, off) for n in node["in"]]
      if real:
        ins = [adapt_input(P, x, how) for x, how in
               zip(ins, node.get("adapt") or ["raw"] * len(ins))]
        return Tap(st["real"](P, ins, node["p"]), on_eof)
      return M.flagged(st["model"](ins, node["p"]))

    depth = [0]

    def walk(node, d=0):
      if "st" in node:
        res.counters["stage." + node["st"]] += 1
        depth[0] = max(depth[0], d + 1)
        if STAGES[node["st"]]["prod"] != "num" or node["st"] in (
            "resample", "overlap_add", "stft", "mixer"):
          info["nontrivial"] = True
        for n in node["in"]:
          walk(n, d + 1)
    walk(wl["base"])
    if depth[0] >= 2 or wl["fan"] != "none":
      info["nontrivial"] = True

    # ---- construction must read nothing
    got = self._guarded("construction", lambda: build(wl["base"], True))
    if got[0] == "stall":
      raise _Mismatch("construction-read:" + self._culprit(wl),
                      "building %s: %s" % (self.describe(wl), got[1]))
    if got[0] != "ok":
      raise _Mismatch("construction-raised", "building %s raised %s"
                      % (self.describe(wl), got[1]))
    real_out = got[1]
    model_out = build(wl["base"], False)
    got = self._guarded("fan-out construction",
                        lambda: self._fan_out(wl, real_out, model_out))
    if got[0] == "stall":
      raise _Mismatch("construction-read:" + self._culprit(wl),
                      "building %s: %s" % (self.describe(wl), got[1]))
    if got[0] != "ok":
      raise _Mismatch("construction-raised", "building %s raised %s"
                      % (self.describe(wl), got[1]))
    real_ends, model_ends = got[1]
    if wl.get("twin"):
      got = self._guarded("twin construction", lambda: self._fan_out(
        wl, build(wl["base"], True, 100), build(wl["base"], False, 100)))
      if got[0] == "stall":
        raise _Mismatch("construction-read:" + self._culprit(wl),
                        "building %s a second time: %s"
                        % (self.describe(wl), got[1]))
      if got[0] != "ok":
        raise _Mismatch("construction-raised", "building %s a second time "
                        "raised %s" % (self.describe(wl), got[1]))
      real_ends = real_ends + got[1][0]
      model_ends = model_ends + got[1][1]
      res.counters["probe.same-pipeline-built-twice"] += 1
    self._compare(wl, real_src, model_src, "construction", events, used)
    events.append("built " + self.describe(wl))

    # ---- demand schedule
    alive = list(range(len(real_ends)))
    M.SEEN_END[0] = False
    nsteps = 1 + S.choose("nsteps", 12)
    late = list(wl.get("late") or [])
    if late:
      nsteps = max(nsteps, late[-1]["at"] + 2)
    for step in range(nsteps):
      if not alive:
        break
      while late and late[0]["at"] <= step:
        self._late_stage(wl, late.pop(0), real_ends, model_ends, real_src,
                         model_src, events, used, res)
      e = alive[S.choose("endpoint", len(alive))]
      # "iter": plain iteration (for / next(iter(s))), which goes round the
      # Stream methods; offered only when late stages exist so that replays
      # of older workloads keep their meaning
      op = ["next", "take", "peek", "iter"][
        S.choose("op", 4 if "late" in wl else 3)]
      k = 1 if op == "next" else 1 + S.choose("k", 10)
      if op != "next" and wl.get("deep"):
        k *= wl["deep"]
      if isinstance(real_ends[e], _HubPeekEnd):
        op = "peek"
      info["demand"].append((e, op, k))
      # the reference pipeline moves first: it defines the read budget
      M.refuel()
      try:
        if op == "peek":
          mk = model_ends[e].peek(k)
        else:
          mk = model_ends[e].take(k)
      except (SimStall, M.ModelStarved):
        # the reference itself starves (a selector that never matches on an
        # endless source): nothing can be demanded of the real stage either
        res.counters["skipped-starving-selector"] += 1
        events.append("%s(%d) on e%d skipped: selector starves" % (op, k, e))
        break
      for sid in real_src:
        real_src[sid].budget = model_src[sid].delivered
      r = real_ends[e]
      if op == "peek":
        got = self._guarded("peek", lambda: r.peek(k))
      elif op == "take":
        got = self._guarded("take", lambda: r.take(k))
      elif op == "iter":
        got = self._guarded("iter", lambda: self._iterate(r, k))
      else:
        got = self._guarded("next", lambda: [r.take()])
      res.counters["op." + op] += 1
      res.steps += 1
      n_real = len(got[1]) if got[0] == "ok" else 0
      events.append("%s(%d) on e%d -> real %s %d items, model %d items"
                    % (op, k, e, got[0], n_real, mk))
      if got[0] == "stall" and self.frozen is not None:
        # The stall guard fired AFTER an end had already travelled through
        # the real pipeline: Python's own iterator objects are not sticky
        # (an exhausted itertools.compress / zip / map asked again pulls its
        # first operand again), so a stage that polls its exhausted input
        # once more (resample, zcross, tee branches) can make an upstream
        # selector search an endless source for ever.  Reads after the first
        # end are not judged (soundness rule 1); the counts frozen at that
        # first end are compared below and the schedule stops.
        res.counters["stall-after-first-end-not-judged"] += 1
        events[-1] += " (after the first end: not judged)"
      elif got[0] == "stall":
        raise _Mismatch("over-read:" + self._culprit(wl),
                        "%s(%d) on endpoint %d of %s: %s"
                        % (op, k, e, self.describe(wl), got[1]))
      self._compare(wl, real_src, model_src,
                    "%s(%d) on endpoint %d (step %d)" % (op, k, e, step),
                    events, used)
      if got[0] == "raise" and got[1].split(":")[0] in PROGRAM_ERRORS and \
         mk >= k and self.frozen is None and \
         not M.SEEN_END[0] and \
         not any(m.eof_hits for m in model_src.values()):
        # nothing has ended anywhere and the reference delivered all k
        # outputs: a stage that raises here does not "work on endless
        # sources and return its first outputs"
        raise _Mismatch("stage-raised:" + self._culprit(wl),
                        "%s(%d) on endpoint %d of %s raised %s although no "
                        "source or stage has ended"
                        % (op, k, e, self.describe(wl), got[1]))
      if got[0] != "ok" or n_real < k or model_ends[e].ended or \
         M.SEEN_END[0] or self.frozen is not None or \
         any(m.eof_hits for m in model_src.values()):
        # Something reached its end (a source, a stage, an endpoint) or
        # raised.  Python's own tee / map / zip objects re-attempt their
        # upstream whenever another consumer reaches that end again, and
        # every such attempt may legitimately pull one more upstream output;
        # that is Python's semantics, not eagerness of a stage.  The first
        # terminal attempt has just been checked; the schedule stops here.
        if got[0] == "raise":
          res.counters["endpoint-raised"] += 1
        res.counters["schedule-stopped-at-first-end"] += 1
        break
    for sid in used:
      if real_src[sid].eof_hits:
        res.counters["fault.eof-at"] += 1
        info["nontrivial"] = True
    self._probes(wl, real_src, model_src, res)

  @staticmethod
  def _iterate(r, k):
    out = []
    it = iter(r)
    for _ in range(k):
      try:
        out.append(next(it))
      except StopIteration:
        break
    return out

  def _late_stage(self, wl, lt, real_ends, model_ends, real_src, model_src,
                  events, used, res):
    """ Puts one more stage on an endpoint that already served demand. """
    P = self.P
    st = STAGES[lt["st"]]
    e = lt["e"]
    old_m = model_ends[e]

    def rest():                  # what the old model endpoint still holds
      while True:
        if old_m.buf:
          yield old_m.buf.pop(0)
        else:
          v = old_m._pull()
          if v is M.END:
            return
          yield v
    for sid in real_src:
      real_src[sid].budget = model_src[sid].delivered
    r = real_ends[e]
    got = self._guarded("late construction",
                        lambda: st["real"](P, [r], lt["p"]))
    what = "%s built on endpoint %d of %s after some demand" % (
      lt["st"], e, self.describe(wl))
    if got[0] == "stall":
      raise _Mismatch("construction-read:" + lt["st"],
                      "%s: %s" % (what, got[1]))
    if got[0] != "ok":
      raise _Mismatch("construction-raised", "%s raised %s" % (what, got[1]))
    nr = got[1]
    real_ends[e] = nr if isinstance(nr, P.ls.Stream) else P.ls.Stream(nr)
    model_ends[e] = M.MEnd(M.flagged(st["model"]([rest()], lt["p"])))
    res.counters["probe.stage-built-after-demand"] += 1
    res.counters["stage." + lt["st"]] += 1
    events.append("late %s on e%d" % (lt["st"], e))
    if self.frozen is None and not M.SEEN_END[0]:
      try:
        self._compare(wl, real_src, model_src, "construction", events, used)
      except _Mismatch as mm:
        raise _Mismatch("construction-read:" + lt["st"],
                        "%s: %s" % (what, mm.detail))

  def _culprit(self, wl):
    node = wl["base"]
    return node.get("st", "record")

  def _fan_out(self, wl, real_out, model_out):
    P = self.P
    Stream = P.ls.Stream
    fan, tails = wl["fan"], wl["tails"]
    if fan == "none":
      reals = [real_out if isinstance(real_out, Stream) else Stream(real_out)]
      models = [model_out]
    else:
      n = len(tails)
      tee = M.MTee(model_out)
      models = [tee.branch() for _ in range(n)]
      if fan == "copy":
        first = real_out if isinstance(real_out, Stream) else Stream(real_out)
        reals = [first, first.copy()]
      elif fan == "tee":
        reals = list(P.lit.tee(real_out if isinstance(real_out, Stream)
                               else Stream(real_out), n))
      else:
        spare = 1 if wl.get("hub_spare") else 0
        hub = P.ls.thub(real_out, n + spare)
        reals = [Stream(hub) for _ in range(n)]
        if spare:
          # one use is left in the hub: the hub object itself can be peeked
          # (again and again, with growing sizes) without spending it
          reals.append(_HubPeekEnd(hub))
          models.append(tee.branch())
          tails = list(tails) + [None]
    out_r, out_m = [], []
    for r, m, t in zip(reals, models, tails):
      if t is not None:
        st = STAGES[t["st"]]
        r = st["real"](P, [r], t["p"])
        m = M.flagged(st["model"]([m], t["p"]))
        if not isinstance(r, Stream):
          r = Stream(r)
      out_r.append(r)
      out_m.append(M.MEnd(m))
    return out_r, out_m

  def _compare(self, wl, real_src, model_src, when, events, used):
    for sid in sorted(real_src):
      r = real_src[sid].delivered if self.frozen is None \
        else self.frozen[sid]
      m = model_src[sid].delivered
      if r > m:
        what = "construction-read" if when == "construction" else "over-read"
        raise _Mismatch("%s:%s" % (what, self._culprit(wl)),
                        "after %s of %s: source %d delivered %d items, the "
                        "minimal-read reference needs %d"
                        % (when, self.describe(wl), sid, r, m))

  def _probes(self, wl, real_src, model_src, res):
    c = res.counters
    base = wl["base"]
    if wl["fan"] != "none":
      c["probe.fan-out"] += 1
    if "st" in base:
      p = base.get("p", {})
      if base["st"] in ("blocks", "stream_blocks") and p.get("hop") and \
         p["hop"] > p["size"]:
        c["probe.hop-greater-than-size"] += 1
      for sid, s in real_src.items():
        if s.length is not None and s.eof_hits and p.get("size") and \
           s.length % (p.get("hop") or p["size"]) == 0:
          c["probe.eof-at-block-boundary"] += 1
          break
    for sid in real_src:
      if real_src[sid].delivered < model_src[sid].delivered:
        c["probe.real-lazier-than-reference"] += 1
        break

  # ------------------------------------------------------------ RecStream
  def _run_record(self, wl, S, res, events, info):
    from .. import audio, backend
    lio = audio.install()
    cs = wl["base"]["rec"]["chunk_size"]
    world = backend.World(None)
    backend.set_world(world)
    try:
      aio = lio.AudioIO()
      rec = aio.record(chunk_size=cs, dfmt="f")
      dev = world.streams[0]
      if dev.reads:
        raise _Mismatch("construction-read:record", "record() read %d "
                        "chunks from the device" % dev.reads)
      total = 0
      for step in range(1 + S.choose("nsteps", 8)):
        k = 1 + S.choose("k", 9)
        info["demand"].append(k)
        got = self._guarded("take", lambda: rec.take(k))
        if got[0] != "ok" or len(got[1]) != k:
          raise _Mismatch("record-short", "take(%d) from the record stream "
                          "gave %r" % (k, got))
        total += k
        need = -(-total // cs)
        events.append("take(%d) -> %d device reads" % (k, dev.reads))
        if dev.reads > need:
          raise _Mismatch("over-read:record", "after %d samples the device "
                          "was read %d times, %d chunks of %d are needed"
                          % (total, dev.reads, need, cs))
        res.steps += 1
      res.counters["stage.record"] += 1
      info["nontrivial"] = True
      aio.close()
    finally:
      backend.set_world(None)


PROPERTY = C02
