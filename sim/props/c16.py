# -*- coding: utf-8 -*-
"""
C16 - The mixer starts each event at its cumulative time and sums what plays;
a ControlStream yields the value most recently assigned.

Part 1 (engine B, exact oracle): a consumer actor and a controller actor over
one Streamix / ControlStream; W draws both scripts, S interleaves them.
Part 2 (engine A, linearization-window oracle): the consumer is a thread (a
plain consumer thread or AudioIO.play through the fake device) while the main
thread calls add() / assigns value, under the seeded thread scheduler with
line pre-emption inside lazy_stream.py - see c16_threads.py.
"""
import math
import signal
from fractions import Fraction

from ..dataflow import SimSource
from ..kernel import (Property, RunResult, Violation, stable_hash,
                      digest_events)
from ..models.mixer import MixState, END, TOL, HALF
from .util import drop_candidates
from . import c16_threads


class Acc(object):
  """ A zero value with an in-place __iadd__ (like a NumPy array). """

  def __init__(self, v=0):
    self.v = v

  def __add__(self, other):
    return Acc(self.v + (other.v if isinstance(other, Acc) else other))

  __radd__ = __add__

  def __iadd__(self, other):
    self.v += other.v if isinstance(other, Acc) else other
    return self

  def __eq__(self, other):
    return isinstance(other, Acc) and other.v == self.v

  def __ne__(self, other):
    return not self == other

  __hash__ = None

  def __repr__(self):
    return "Acc(%r)" % (self.v,)


ZEROS = ["int", "float", "frac", "acc", "int5", "fracq"]   # "any zero value"
DELTAS = [0, 1, 2, 3, 5, 0.125, 0.5, 0.875, 1.5, 2.25, 2.5, 0.1, 0.3, 1.7,
          3.49, 7, 0.0, 4.625, -1, -0.5, -1e-9, -0.0,
          # almost-integer / almost-half deltas: "nearest" is still decided
          0.4999999, 1.0000005, 2.9999996, 0.5000004, 1.4999994,
          # exact rationals (not float instances): "p/q" decodes to Fraction
          "13/5", "3/10", "7/4", "1/3"]


def dec_delta(d):
  return Fraction(d) if isinstance(d, str) else d
CONTAINERS = ["list", "tuple", "gen", "stream", "src", "seqproto", "submix",
              "hub1", "hub2", "substream", "deque", "iter", "unhashable"]


class UnhashableIter(object):
  """ A legal iterator that compares by value and therefore cannot be
  hashed (what a @dataclass iterator is). """
  __hash__ = None

  def __init__(self, values):
    self.values, self.pos = list(values), 0

  def __eq__(self, other):
    return isinstance(other, UnhashableIter) and \
      (self.values, self.pos) == (other.values, other.pos)

  def __iter__(self):
    return self

  def __next__(self):
    if self.pos >= len(self.values):
      raise StopIteration
    self.pos += 1
    return self.values[self.pos - 1]


def _a_callable_value():
  return "called"


def show(v):
  """ repr without addresses (event logs and details must be the same in
  every process). """
  if isinstance(v, (list, tuple)):
    body = ", ".join(show(x) for x in v)
    return "[%s]" % body if isinstance(v, list) else "(%s)" % body
  if callable(v):
    return "<callable %s>" % getattr(v, "__name__", type(v).__name__)
  return repr(v)


class SeqProto(object):
  """ Iterable only through the old sequence protocol (no __iter__). """

  def __init__(self, values):
    self._v = list(values)

  def __getitem__(self, i):
    return self._v[i]

  def __len__(self):
    return len(self._v)


def make_zero(kind):
  return {"int": 0, "float": 0., "frac": Fraction(0), "acc": Acc(0),
          "int5": 5, "fracq": Fraction(1, 4)}[kind]


def conv(kind, v):
  if kind == "float":
    return float(v)
  if kind in ("frac", "fracq"):
    return Fraction(v)
  return v


def snap(kind, v):
  """ Immutable snapshot of an output value. """
  if isinstance(v, Acc):
    return ("acc", v.v)
  return v


HANG_SECONDS = 20


class _Hang(BaseException):
  pass


def _on_alarm(signum, frame):
  raise _Hang()


def guarded(what, fn):
  """ A call into the real mixer that does not come back is a hang of the
  code under test (single thread: nothing else could make progress). """
  signal.signal(signal.SIGALRM, _on_alarm)
  signal.alarm(HANG_SECONDS)
  try:
    return fn()
  except _Hang:
    raise _Mismatch("hang", "%s did not return within %d s" % (what,
                                                               HANG_SECONDS))
  finally:
    signal.alarm(0)


class _Ambiguous(Exception):
  """ Too many half-sample alternatives stay indistinguishable. """


def dedupe(states, cap=256):
  seen, out = set(), []
  for st in states:
    k = st.key()
    if k not in seen:
      seen.add(k)
      out.append(st)
  if len(out) > cap:
    raise _Ambiguous()
  return out


class _Mismatch(Exception):
  def __init__(self, what, detail):
    Exception.__init__(self, detail)
    self.what, self.detail = what, detail


class C16(Property):
  id = "C16"
  engine = "dataflow+threads"
  rule = ("part 1: seeded mixer histories (events with integer / dyadic / "
          "decimal / negative deltas, empty, finite and overlapping data in "
          "five container kinds, keep on/off, zero in {0, 0.0, Fraction(0), "
          "mutable accumulator}) where the scheduler interleaves add() with "
          "consumption of seeded granularity, and ControlStream histories "
          "interleaving assignments with reads (direct and inside "
          "expressions); exact event-list model, sample by sample. part 2: "
          "the same with a consumer thread under the seeded thread scheduler "
          "(linearization-window oracle). distinct = distinct (workload, "
          "interleaving) digest; non-trivial = at least one addition or "
          "assignment landed after consumption began, or a rare probe fired")
  components = {"real": ["audiolazy.lazy_stream.Streamix",
                         "audiolazy.lazy_stream.ControlStream",
                         "audiolazy.lazy_stream.Stream",
                         "part 2: audiolazy.lazy_io.AudioIO/AudioThread, real "
                         "OS threads released one at a time"],
                "stub": ["event data: lists/tuples/generators/Streams/"
                         "SimSources with tagged exact values",
                         "part 2: fake PyAudio backend, simulated "
                         "Lock/Event"]}
  assumptions = [
    "a start time within 1e-6 of a half sample accepts either neighbour",
    "exact value types only, so summation order cannot matter",
    "add() after the mixer has ended is outside the statement and not "
    "generated",
    "part 2: pre-emption granularity is the source line (in part of the "
    "runs: the bytecode instruction) of lazy_stream.py / lazy_io.py; an add "
    "overlapping the mixer's termination decision may be lost, one that "
    "returned strictly before may not"]

  def setup(self):
    from audiolazy import lazy_stream
    self.ls = lazy_stream
    self.threads_part = c16_threads.ThreadsPart(self)
    self.threads_part.setup()

  def budget(self, tier):
    return (110000, 60.0) if tier == "quick" else (20000000, 780.0)

  def extra_schedules(self):
    return 8

  # ---------------------------------------------------------------- workload
  def gen_workload(self, W, index):
    part = W.weighted("part", [(5, "mix"), (2, "ctrl"), (3, "mix-thread"),
                               (1, "ctrl-thread")])
    if part in ("mix-thread", "ctrl-thread"):
      return self.threads_part.gen_workload(W, part)
    if part == "ctrl":
      nset = W.span("nset", 0, 6)
      return {"part": "ctrl", "mode": W.weighted("mode", [
        (2, "direct"), (2, "add"), (1, "rmul"), (1, "copy"), (1, "map"),
        (1, "limit-skip"), (1, "mixer-event"), (1, "mixer-event-twice")]),
        "riter": W.chance("riter", 1, 3),
        "nset": nset,
        "reads": [W.weighted("rk", [(3, 1), (2, 2), (1, 5), (1, 0)])
                  for _ in range(W.span("nreads", 1, 8))]}
    long_run = W.chance("long", 1, 40)
    crowd = not long_run and W.chance("crowd", 1, 12)
    nev = W.span("nev", 0, 6) if not long_run else 2000 + W.choose("x", 500)
    if crowd:
      nev = W.span("ncrowd", 9, 14)    # many events playing at once
    events = []
    for i in range(nev):
      if long_run:
        d = W.pick("ld", [0.1, 0.3, 0.7, 1.1, 0.125, 1 / 3.0, 2.9])
        ln = W.choose("llen", 3)
        events.append({"delta": d, "len": ln, "box": "list"})
        continue
      if crowd:
        d = W.pick("cdelta", [0, 0, 0, 1, 0.5, 0.25])
        ln = W.weighted("clen", [(1, 0), (2, 1), (2, 2), (2, 3), (2, 5),
                                 (1, 8)])
        events.append({"delta": d, "len": ln, "box": "list"})
        continue
      d = W.pick("delta", DELTAS) if not W.chance("big", 1, 10) \
        else W.pick("bigd", [10, 12.5, 20.75, 9.99, 100.5, 333.25])
      ln = W.weighted("len", [(1, 0), (2, 1), (3, 2), (2, 4), (1, 7)])
      ev = {"delta": d, "len": ln, "box": W.pick("box", CONTAINERS)}
      if W.chance("chain", 1, 14):
        # a sequencer: while it plays, this event schedules its successor
        ev["box"] = "seq"
        ev["chain"] = {"at": W.choose("at", ln + 2),
                       "delta": W.pick("cdelta", [0, 1, 2, 0.5, 3.25, 6]),
                       "len": W.weighted("clen", [(1, 0), (2, 1), (2, 3)])}
      events.append(ev)
    demands = [W.weighted("dk", [(3, 1), (3, 2), (2, 4), (1, 9), (1, 0)])
               for _ in range(W.span("ndem", 0, 10))]
    if long_run:
      demands = [W.pick("ldk", [50, 200, 500]) for _ in range(4)]
    return {"part": "mix", "keep": bool(W.choose("keep", 2)),
            "zero": W.pick("zero", ZEROS), "events": events,
            "demands": demands, "tail": W.pick("tail", [3, 0, 8]),
            # the public attribute may be switched while the mixer plays
            "keep_toggles": W.weighted("ktog", [(6, 0), (1, 1), (1, 2)]),
            # event values: tagged / with silent items / cancelling pairs
            "values": W.weighted("vals", [(5, "tag"), (2, "sparse"),
                                          (2, "cancel")]),
            # how the consumer pulls: take(k), plain iteration, or both
            "style": W.weighted("style", [(4, "take"), (1, "iter"),
                                          (2, "mixed")])}

  def shrink_candidates(self, wl):
    if wl["part"] in ("mix-thread", "ctrl-thread"):
      for c in self.threads_part.shrink_candidates(wl):
        yield c
      return
    if wl["part"] == "ctrl":
      for reads in drop_candidates(wl["reads"]):
        c = dict(wl)
        c["reads"] = reads
        yield c
      if wl["nset"] > 0:
        c = dict(wl)
        c["nset"] = wl["nset"] - 1
        yield c
      return
    for evs in drop_candidates(wl["events"]):
      c = dict(wl)
      c["events"] = evs
      yield c
    for dem in drop_candidates(wl["demands"]):
      c = dict(wl)
      c["demands"] = dem
      yield c
    for i, ev in enumerate(wl["events"]):
      if ev["len"] > 0:
        c = dict(wl)
        c["events"] = [dict(e) for e in wl["events"]]
        c["events"][i]["len"] = ev["len"] - 1
        yield c
      if ev["box"] != "list":
        c = dict(wl)
        c["events"] = [dict(e) for e in wl["events"]]
        c["events"][i]["box"] = "list"
        yield c
    if wl["zero"] != "int":
      c = dict(wl)
      c["zero"] = "int"
      yield c
    if wl.get("tail"):
      c = dict(wl)
      c["tail"] = 0
      yield c

  def corpus(self):
    def ev(d, ln, box="list"):
      return {"delta": d, "len": ln, "box": box}
    out = [
      {"part": "mix", "keep": False, "zero": "int", "tail": 0,
       "events": [ev(0, 4), ev(2, 3, "stream"), ev(0, 6, "tuple")],
       "demands": [2, 3]},
      {"part": "mix", "keep": False, "zero": "acc", "tail": 0,
       "events": [ev(0, 3), ev(1, 2)], "demands": [1, 1, 4]},
      {"part": "mix", "keep": True, "zero": "float", "tail": 5,
       "events": [ev(0.5, 2), ev(0.875, 0), ev(2.5, 1, "gen")],
       "demands": [1, 2, 1]},
      {"part": "mix", "keep": False, "zero": "frac", "tail": 0,
       "events": [ev(3, 1), ev(-1, 2), ev(0, 0, "src"), ev(1.5, 2)],
       "demands": [5, 1]},
      {"part": "mix", "keep": False, "zero": "int", "tail": 0,
       "events": [], "demands": [1]},
      {"part": "mix", "keep": False, "zero": "int", "tail": 0,
       "events": [ev(0.1, 1)] * 30, "demands": [2, 2, 2]},
      {"part": "ctrl", "mode": "add", "nset": 3, "reads": [1, 2, 1, 5]},
      {"part": "ctrl", "mode": "direct", "nset": 2, "reads": [2, 0, 1]},
    ]
    return out + self.threads_part.corpus()

  # --------------------------------------------------------------------- run
  def run(self, workload, S, want_sample=False):
    part = workload["part"]
    if part in ("mix-thread", "ctrl-thread"):
      return self.threads_part.run(workload, S, want_sample)
    res = RunResult()
    events = []
    try:
      if part == "mix":
        info = self._run_mix(workload, S, res, events)
      else:
        info = self._run_ctrl(workload, S, res, events)
    except _Mismatch as mm:
      res.violation = Violation("model-mismatch", part + ":" + mm.what,
                                mm.detail)
      info = {"late": 0, "choices": []}
    except _Ambiguous:
      # silent / cancelling values plus many half-sample ties: the outputs no
      # longer tell the alternatives apart; such a run is not judged further
      res.counters["skipped-too-many-tie-alternatives"] += 1
      info = {"late": 0, "choices": []}
    res.counters["runs." + part] += 1
    res.digest = digest_events(events)
    fired = any(k.startswith("probe.") and v for k, v in res.counters.items())
    if info.get("late") or fired:
      res.nontrivial_key = stable_hash((workload if len(repr(workload)) < 4000
                                        else repr(workload)[:4000],
                                        info.get("choices")))
    if want_sample:
      res.sample = {"workload": workload if len(repr(workload)) < 3000
                    else "long run with %d events" % len(workload["events"]),
                    "trace": events[:50]}
    return res

  # ------------------------------------------------------------------- mixer
  def _event_values(self, kind, i, ln, flavour="tag"):
    if flavour == "sparse":       # silent items: the sum may be the zero
      return [conv(kind, 0 if j % 2 else (i + 1) * 1000 + j + 1)
              for j in range(ln)]
    if flavour == "cancel":       # event i+1 cancels event i item by item
      sign = -1 if i % 2 else 1
      return [conv(kind, sign * (((i // 2) + 1) * 1000 + j + 1))
              for j in range(ln)]
    return [conv(kind, (i + 1) * 1000 + j + 1) for j in range(ln)]

  def _box(self, box, values, sid):
    if box == "list":
      return list(values)
    if box == "tuple":
      return tuple(values)
    if box == "gen":
      return (v for v in list(values))
    if box == "stream":
      return self.ls.Stream(list(values))
    if box == "seqproto":
      return SeqProto(values)
    if box == "hub1":           # a tee hub object with a single use
      return self.ls.thub(list(values), 1)
    if box == "hub2":
      # a hub object with two uses: the mixer takes one, the other is kept
      # and must still yield the whole sequence at the end of the run
      hub = self.ls.thub(list(values), 2)
      self._hub_others.append((self.ls.Stream(hub), list(values)))
      return hub
    if box == "substream":
      # a Stream subclass whose __iter__ decides what is played (as the
      # ChangeableStream of examples/keyboard.py); its raw data differs
      vals = list(values)

      class Played(self.ls.Stream):
        def __iter__(self):
          return iter(vals)
      return Played([987654321] * (len(vals) + 2))
    if box == "unhashable":
      return UnhashableIter(values)
    if box == "deque":
      import collections
      return collections.deque(values)
    if box == "iter":
      return iter(list(values))
    if box == "submix":
      # another Streamix (with this one event) played as the event
      sub = self.ls.Streamix(zero=0)
      sub.add(0, list(values))
      return sub
    vals = list(values)
    return SimSource(sid, len(vals), lambda i, v=vals: v[i])

  def _run_mix(self, wl, S, res, events):
    kind = wl["zero"]
    zero = make_zero(kind)
    try:
      mix = self.ls.Streamix(keep=wl["keep"], zero=zero)
    except Exception as exc:
      raise _Mismatch("construct", "Streamix(keep=%r, zero=%r) raised %r"
                      % (wl["keep"], zero, exc))
    add_fn = lambda acc, item: acc + item
    self._hub_others = []
    # a second mixer filled before this one is used and kept alive: state
    # shared between instances shows up inside this very run
    decoy = self.ls.Streamix(zero=0)
    decoy.add(1, [70001, 70002])
    states = [MixState(wl["keep"], make_zero(kind))]
    wl_keep = [wl["keep"]]  # current value of the public keep attribute
    inflight = []           # adds made by playing events during this sample
    has_chain = any(ev.get("chain") for ev in wl["events"])
    chain_ids = [1000]

    def seq_box(vals, chain):
      cid = chain_ids[0]
      chain_ids[0] += 1
      cvals = self._event_values(kind, cid, chain["len"])

      def do_add():
        res.counters["probe.event-schedules-its-successor"] += 1
        inflight.append((chain["delta"], cvals))
        mix.add(chain["delta"], list(cvals))

      def gen():
        for j, v in enumerate(vals):
          if j == chain["at"]:
            do_add()
          yield v
        if chain["at"] >= len(vals):
          do_add()
      return gen()
    adds = list(enumerate(wl["events"]))
    demands = list(wl["demands"])
    produced = 0
    ended = False
    late = 0
    choices = []
    res.steps = 0

    def consume(k):
      nonlocal states, produced, ended
      if has_chain and k > 1:
        # events that call add() while they play: one sample at a time, so
        # that every such call is attributed to the sample it happened in
        for _ in range(k):
          if ended:
            break
          consume(1)
        return
      del inflight[:]
      try:
        style = wl.get("style", "take")
        if style == "mixed":
          style = "iter" if (res.counters["op.take"] % 2) else "take"
        if style == "iter":
          # plain iteration: next(iter(mixer)) / a for loop with break
          def pull():
            out = []
            it = iter(mix)
            for _ in range(k):
              try:
                out.append(next(it))
              except StopIteration:
                break
            return out
          res.counters["probe.consumed-by-plain-iteration"] += 1
          got = guarded("iteration of %d" % k, pull)
        else:
          got = guarded("take(%d)" % k, lambda: mix.take(k))
      except _Mismatch:
        raise
      except Exception as exc:
        raise _Mismatch("take-raised", "take(%d) after %d samples raised %r"
                        % (k, produced, exc))
      got = [snap(kind, g) for g in got]
      for j in range(k):
        alts = []
        for st in states:
          alts.extend(st.next(add_fn, inflight=list(inflight)))
        if j < len(got):
          keep = [st for out, st in alts
                  if out is not END and snap(kind, out) == got[j]]
          if not keep:
            outs = [("END" if out is END else snap(kind, out))
                    for out, st in alts]
            what = "sample"
            if all(o == "END" for o in outs):
              what = "too-long"
            raise _Mismatch(what, "sample %d is %r, the event model allows "
                            "%r (starts so far %r)"
                            % (produced, got[j], outs, alts[0][1].starts))
          if len(alts) > 1:
            res.counters["probe.half-sample-tie"] += 1
          states = dedupe(keep)
          produced += 1
        else:
          keep = [st for out, st in alts if out is END]
          if not keep:
            outs = [snap(kind, out) for out, st in alts]
            raise _Mismatch("too-short", "mixer ended after %d samples, the "
                            "event model continues with %r"
                            % (produced, outs))
          states = dedupe(keep)
          ended = True
          res.counters["probe.mixer-ended-by-last-event"] += 1
          break
      events.append("take(%d) -> %d samples, total %d%s"
                    % (k, len(got), produced, " END" if ended else ""))
      res.counters["op.take"] += 1

    toggles = wl.get("keep_toggles", 0)
    while (adds or demands) and not ended:
      opts = []
      if adds:
        opts.append("add")
      if demands:
        opts.append("take")
      if toggles and produced:
        opts.append("toggle-keep")
      c = opts[S.choose("actor", len(opts))]
      if c == "toggle-keep":
        toggles -= 1
        choices.append(c)
        mix.keep = not mix.keep
        for st in states:
          st.keep = not st.keep
        wl_keep[0] = not wl_keep[0]
        res.counters["probe.keep-switched-during-playback"] += 1
        events.append("keep = %r after %d samples" % (mix.keep, produced))
        continue
      choices.append(c)
      res.steps += 1
      if c == "add":
        i, ev = adds.pop(0)
        vals = self._event_values(kind, i, ev["len"],
                                  wl.get("values", "tag"))
        d = dec_delta(ev["delta"])
        want_err = d < 0
        for st in states:
          try:
            st.add(d, vals)
          except ValueError:
            pass
        try:
          if ev.get("chain") and not want_err:
            box = seq_box(vals, ev["chain"])
          else:
            box = self._box(ev["box"] if ev["box"] != "seq" else "list",
                            vals, i + 1)
          ret = guarded("add", lambda: mix.add(d, box))
          err = None
        except ValueError:
          err = "ValueError"
        except Exception as exc:
          raise _Mismatch("add-raised", "add(%r, ...) raised %r" % (d, exc))
        if want_err and err is None:
          raise _Mismatch("negative-delta-accepted",
                          "add(%r, ...) did not raise ValueError" % (d,))
        if not want_err and err is not None:
          raise _Mismatch("add-raised", "add(%r, ...) raised ValueError"
                          % (d,))
        if want_err:
          res.counters["probe.negative-delta-rejected"] += 1
        elif produced:
          late += 1
          res.counters["fault.late-addition"] += 1
          if states[0].T + TOL < produced:
            res.counters["probe.event-started-late"] += 1
        if ev["len"] == 0 and not want_err:
          res.counters["fault.eof-at-empty-event"] += 1
        events.append("add(%r, %s len %d) after %d samples"
                      % (d, ev["box"], ev["len"], produced))
        res.counters["op.add"] += 1
      else:
        consume(demands.pop(0))
    # the rest of the sequence
    if not ended:
      if wl_keep[0]:
        # bounded look at the tail: the latest possible end of every event
        horizon = produced + wl.get("tail", 0)
        for st in states:
          for T, eid, vals in st.pending:
            horizon = max(horizon, max(int(T), st.n) + 2 + len(vals))
          for eid, vals, idx in st.playing:
            horizon = max(horizon, st.n + len(vals) - idx + 1)
        k = horizon - produced + wl.get("tail", 0)
        if k > 0:
          consume(k)
        if ended:
          raise _Mismatch("keep-ended", "a keep=True mixer ended after %d "
                          "samples" % produced)
        res.counters["probe.keep-tail"] += 1
      else:
        # everything that remains, then the end.  The bound covers every
        # event still to start or to be scheduled by a playing sequencer.
        slack = 6 + sum(int(ev["chain"]["delta"]) + ev["chain"]["len"] + 2
                        for ev in wl["events"] if ev.get("chain"))
        while not ended:
          bound = produced + 2
          for st in states:
            for T, eid, vals in st.pending:
              bound = max(bound, max(int(T), st.n) + 3 + len(vals))
            for eid, vals, idx in st.playing:
              bound = max(bound, st.n + len(vals) - idx + 2)
          before = produced
          consume(bound - produced + 3)
          if not ended and slack <= 0 and produced == before + \
             (bound - before + 3):
            raise _Mismatch("too-long", "mixer still running after %d "
                            "samples although no event is playing or pending"
                            % produced)
          slack -= max(1, produced - before)
    for other, vals in self._hub_others:
      try:
        ogot = guarded("other hub use", lambda: list(other))
      except _Mismatch:
        raise
      except Exception as exc:
        raise _Mismatch("hub-event", "the other use of a hub that was also "
                        "given to add() raised %r" % (exc,))
      if [snap(kind, g) for g in ogot] != [snap(kind, v) for v in vals]:
        raise _Mismatch("hub-event", "the other use of a hub that was also "
                        "given to add() yields %r instead of %r"
                        % (ogot, vals))
      res.counters["probe.event-is-a-shared-hub"] += 1
    try:
      dgot = guarded("decoy", lambda: decoy.take(5))
    except _Mismatch:
      raise
    except Exception as exc:
      raise _Mismatch("second-instance", "the other mixer raised %r" % (exc,))
    if dgot != [0, 70001, 70002]:
      raise _Mismatch("second-instance", "a second, independent mixer gave "
                      "%r instead of [0, 70001, 70002]" % (dgot,))
    st = states[0]
    starts = sorted(st.starts.values())
    if len(starts) != len(set(starts)):
      res.counters["probe.two-events-start-on-same-sample"] += 1
    if len(wl["events"]) >= 1000:
      res.counters["probe.1000-accumulated-fractional-deltas"] += 1
    return {"late": late, "choices": choices}

  # ----------------------------------------------------------- ControlStream
  def _run_ctrl(self, wl, S, res, events):
    Stream = self.ls.Stream
    decoy = self.ls.ControlStream(555)
    cs = self.ls.ControlStream(7)
    current = 7
    mode = wl["mode"]
    src = SimSource(1, None, lambda i: i + 1)
    n = [0]
    if mode == "direct":
      out = cs
      f = lambda d, v: v
    elif mode == "add":
      out = Stream(src) + cs
      f = lambda d, v: d + v
    elif mode == "rmul":
      out = cs * Stream(src)
      f = lambda d, v: v * d
    elif mode == "map":
      # shaped in place: still the same object, still the current value
      out = cs.map(lambda v: ("m", v))
      f = lambda d, v: ("m", v)
    elif mode == "limit-skip":
      out = cs.limit(100000).skip(2)
      f = lambda d, v: v
    elif mode == "mixer-event":
      out = self.ls.Streamix(zero=0)
      out.add(0, cs)
      f = lambda d, v: 0 + v
    elif mode == "mixer-event-twice":
      # the very same ControlStream object added twice (unison / echo): from
      # the third sample on both events play the current value
      out = self.ls.Streamix(zero=0)
      out.add(0, cs)
      out.add(2, cs)
      f = lambda d, v: 0 + v if d <= 2 else 0 + v + v
    else:
      out = cs.copy()
      f = lambda d, v: v
    sets = [100 + 13 * i for i in range(wl["nset"])]
    if mode in ("direct", "copy", "map", "limit-skip") and len(sets) >= 2:
      sets[1] = None          # None is a value like any other
    if mode in ("direct", "copy", "map", "limit-skip") and len(sets) >= 3:
      # callables are values like any other too (a function, a type)
      sets[2] = _a_callable_value if wl["nset"] % 2 else int
    reads = list(wl["reads"])
    late = 0
    choices = []
    res.steps = 0
    read_since_set = True
    while sets or reads:
      opts = []
      if sets:
        opts.append("set")
      if reads:
        opts.append("read")
      c = opts[S.choose("actor", len(opts))]
      choices.append(c)
      res.steps += 1
      if c == "set":
        current = sets.pop(0)
        cs.value = current
        if n[0]:
          late += 1
        if not read_since_set:
          res.counters["probe.two-assignments-without-a-read"] += 1
        read_since_set = False
        events.append("value = %s" % show(current))
        res.counters["op.assign"] += 1
      else:
        k = reads.pop(0)
        try:
          if wl.get("riter"):
            it_ = iter(out)        # plain iteration instead of take()
            got = [next(it_) for _ in range(k)]
          else:
            got = out.take(k)
        except Exception as exc:
          raise _Mismatch("take-raised", "take(%d) raised %r" % (k, exc))
        want = [f(n[0] + j + 1, current) for j in range(k)]
        n[0] += k
        if k:
          read_since_set = True
        events.append("take(%d) -> %s" % (k, show(want)))
        res.counters["op.read"] += 1
        if got != want:
          raise _Mismatch("value", "%s stream gave %s, most recently "
                          "assigned value is %s (expected %s)"
                          % (mode, show(got), show(current), show(want)))
    dgot = decoy.take(2)
    if dgot != [555, 555]:
      raise _Mismatch("second-instance", "a second, independent "
                      "ControlStream gave %r instead of [555, 555]" % (dgot,))
    if mode != "direct":
      # the ControlStream object itself goes away; what was built from it
      # keeps yielding the value most recently assigned
      import gc
      del cs
      gc.collect()
      try:
        got = out.take(2)
      except Exception as exc:
        raise _Mismatch("value-after-release", "reading the derived stream "
                        "after the ControlStream was released raised %r"
                        % (exc,))
      want = [f(n[0] + j + 1, current) for j in range(2)]
      if got != want:
        raise _Mismatch("value-after-release", "after the ControlStream was "
                        "released the derived stream gave %s, expected %s"
                        % (show(got), show(want)))
      res.counters["probe.controlstream-object-released"] += 1
    return {"late": late, "choices": choices}


PROPERTY = C16
