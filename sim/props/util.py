# -*- coding: utf-8 -*-
""" Helpers shared by property plug-ins. """


def drop_candidates(seq):
  """ Lists obtained from ``seq`` by deleting one chunk (halves ... 1). """
  n = len(seq)
  size = n // 2
  seen = set()
  while size >= 1:
    i = 0
    while i < n:
      cand = seq[:i] + seq[i + size:]
      key = repr(cand)
      if len(cand) < n and key not in seen:
        seen.add(key)
        yield cand
      i += size
    size //= 2


def lower_int_candidates(value, lo=0):
  """ Smaller integers to try in place of ``value``. """
  out = []
  if value > lo:
    out.append(lo)
    if value - 1 > lo:
      out.append(value // 2 if value // 2 > lo else lo + 1)
      out.append(value - 1)
  seen = []
  for v in out:
    if v not in seen and v != value:
      seen.append(v)
  return seen
