# -*- coding: utf-8 -*-
"""
C03 - A Stream behaves as a lazy sequence under any history of its methods.

Engine B: a pool of live handles (Streams and StreamTeeHubs) over
simulator-owned sources; the workload stream W draws the operation history,
the schedule stream S decides which handle acts next (so consumption among
copies / tee outputs / thub uses is interleaved in every order the seed
produces); every call's return value or exception class is compared at once
with the list reference model.
"""
import math
import signal

from ..dataflow import SimSource, SimStall
from ..kernel import (Property, RunResult, Violation, stable_hash,
                      digest_events)
from ..models.stream_list import (End, Starved, refuel, ListSeq, FnSeq, MapSeq,
                                  DropSeq, LimitSeq, AppendSeq, FilterSeq,
                                  HandleModel)
from .util import drop_candidates

MAPS = [("x+100000", lambda x: x + 100000), ("x*2", lambda x: x * 2),
        ("-x", lambda x: -x)]
PREDS = [("even", lambda x: x % 2 == 0), ("not3", lambda x: x % 3 != 0),
         ("mod5lt3", lambda x: x % 5 < 3),
         # the built-in forms: keep the items that are true
         ("None", None), ("bool", bool)]
FRACS = [0.25, 0.4, 0.6, 0.75]
CATS_TAKE = [(4, "within"), (2, "exact"), (3, "beyond"), (1, "zero"),
             (1, "neg"), (2, "float"), (2, "inf"), (2, "none"), (1, "ninf")]
CATS_CUT = [(4, "within"), (2, "exact"), (3, "beyond"), (1, "zero"),
            (1, "neg"), (2, "float"), (1, "fraction")]
class _NoIter(object):
  """ Not iterable although the attribute exists. """
  __iter__ = None

  def __repr__(self):
    return "<_NoIter>"


def _a_function():
  return None


# non-iterables: numbers, None, a class object (it HAS an __iter__ attribute
# but is not iterable itself), an instance whose class disables iteration, a
# function, a type
NON_ITERABLES = [5, 2.5, None, list, _NoIter(), _a_function, dict, object]
# a new Stream derived from a live one by an operator / attribute access /
# element call: the old object is consumed by it (its iterator is shared)
DERIVE = [("-s", lambda s: -s, lambda x: -x),
          ("s+100000", lambda s: s + 100000, lambda x: x + 100000),
          ("2*s", lambda s: 2 * s, lambda x: 2 * x),
          ("abs(s)", abs, abs),
          ("s.real", lambda s: s.real, lambda x: x.real),
          ("s.conjugate()", lambda s: s.conjugate(), lambda x: x.conjugate()),
          ("s//1", lambda s: s // 1, lambda x: x // 1)]
RAW_ITERABLES = ["list", "tuple", "str", "range", "gen", "dict", "bytes",
                 "onepass", "deque", "iterator"]


def strict_same(a, b):
  """ "Exactly what the list model yields": equal AND of the same type, item
  by item (1, 1.0 and True are different items; so are 0.0 and -0.0). """
  if type(a) is not type(b):
    return False
  if isinstance(a, (list, tuple)):
    return len(a) == len(b) and all(strict_same(x, y) for x, y in zip(a, b))
  if isinstance(a, float):
    return (a == b and math.copysign(1, a) == math.copysign(1, b)) or \
      (a != a and b != b)
  return a == b


RAW_ITERATORS = ["listiter", "gen", "islice", "chain", "map", "userclass",
                 "tupleiter", "list"]


class _UserIterator(object):
  def __init__(self, items):
    self.items, self.pos = list(items), 0

  def __iter__(self):
    return self

  def __next__(self):
    if self.pos >= len(self.items):
      raise StopIteration
    self.pos += 1
    return self.items[self.pos - 1]


def make_raw_iterator(kind, n):
  import itertools
  items = list(range(500, 500 + n))
  if kind == "listiter":
    return iter(list(items)), items
  if kind == "tupleiter":
    return iter(tuple(items)), items
  if kind == "gen":
    return (v for v in items), items
  if kind == "islice":
    return itertools.islice(items + [0, 0], n), items
  if kind == "chain":
    return itertools.chain(items[:1], items[1:]), items
  if kind == "map":
    return map(lambda v: v, items), items
  if kind == "userclass":
    return _UserIterator(items), items
  return list(items), items          # not an iterator: handed back as it is


class _OnePass(object):
  """ Iterable (not an iterator) whose every iter() reads the same one-pass
  source, as a wrapper around a file or socket does. """

  def __init__(self, items):
    self._it = iter(items)

  def __iter__(self):
    return (v for v in self._it)


def make_raw(kind, n):
  if kind == "str":
    items = list("abcde"[:n])
    return "abcde"[:n], items
  if kind == "bytes":
    return bytes(range(65, 65 + n)), list(range(65, 65 + n))
  items = list(range(300, 300 + n))
  if kind == "list":
    return list(items), items
  if kind == "tuple":
    return tuple(items), items
  if kind == "range":
    return range(300, 300 + n), items
  if kind == "dict":
    return dict((v, None) for v in items), items
  if kind == "onepass":
    return _OnePass(items), items
  if kind == "deque":
    import collections
    return collections.deque(items), items
  if kind == "iterator":
    return iter(list(items)), items
  return (v for v in items), items


# items a sentinel-based implementation would trip over
ODD_VALUES = [3, None, 0, False, "", (), None, 7]
CTORS = {"tuple": tuple, "set": set, "sum": sum,
         "sorted_desc": lambda it: sorted(it, reverse=True)}
MAX_POOL = 6
HANG_SECONDS = 60


class _Hang(BaseException):
  pass


def _on_alarm(signum, frame):
  raise _Hang()


class _Mismatch(Exception):
  def __init__(self, what, detail):
    Exception.__init__(self, detail)
    self.what, self.detail = what, detail


class Handle(object):
  def __init__(self, hid, kind, real, model, uses=0, gen=0, family=0):
    self.hid, self.kind, self.real, self.model = hid, kind, real, model
    self.uses = uses
    self.gen = gen
    self.family = family


class C03(Property):
  id = "C03"
  engine = "dataflow"
  rule = ("seeded histories (take/peek/skip/limit with counts negative, 0, "
          "within, equal, beyond, float, inf, -inf, None; append of lists / "
          "other handles / hub uses; map; filter; copy; tee; thub and hub "
          "uses, hub.peek/copy/limit/skip/append/map/filter; next(iter()); "
          "partial for) over a pool of <= 6 handles on finite (seeded EOF), "
          "chained, periodic and endless sources; which handle acts next is "
          "drawn by the scheduler. distinct = distinct (history, handle "
          "choices) digest; non-trivial = >= 3 operations and at least one "
          "EOF hit or rare probe")
  components = {"real": ["audiolazy.lazy_stream.Stream", "StreamTeeHub",
                         "thub", "audiolazy.lazy_itertools.tee"],
                "stub": ["leaf iterators: SimSource (simulator-owned, counts "
                         "reads, ends at a seeded instant or never)"]}
  assumptions = [
    "ownership follows the documented rule: an operand handed to append / "
    "tee / thub is retired from the pool",
    "float counts avoid exact .5 ties; inf/nan are not passed to skip/limit "
    "(the statement fixes neither)",
    "predicates are dense; an operation whose answer would need more than "
    "400 source items is not issued"]

  def setup(self):
    import audiolazy
    from audiolazy import lazy_stream, lazy_itertools
    self.Stream = lazy_stream.Stream
    self.thub = lazy_stream.thub
    self.StreamTeeHub = lazy_stream.StreamTeeHub
    self.tee = lazy_itertools.tee
    # StreamTeeHub.__del__ of a hub whose constructor raised recurses in
    # Stream.__getattr__ ("Exception ignored in ..."): cosmetic, outside the
    # statement; keep stderr readable
    import sys
    sys.unraisablehook = lambda *args: None

  def budget(self, tier):
    return (480000, 60.0) if tier == "quick" else (40000000, 780.0)

  # ---------------------------------------------------------------- workload
  def gen_workload(self, W, index):
    if W.chance("marathon", 1, 1500):
      # the same two or three methods a thousand times over on one endless
      # stream (the ordinary "peek, then take" loop; copies of copies):
      # whatever builds up per call shows only after hundreds of calls
      pattern = W.pick("mpattern", [
        [["peek", "within", 1, None], ["take", "within", 1, None]],
        [["copy"], ["take", "within", 2, None]],
        [["peek", "none", 0, None], ["next_it"]],
        [["copy"], ["peek", "within", 3, None], ["take", "none", 0, None]]])
      # (skip / limit / map / filter wrap the data once more per call by
      # design - a thousand of them nest a thousand iterators in any lazy
      # implementation - so they are not part of these long histories)
      if W.chance("lag", 1, 4):
        # one copy falls thousands of items behind its origin, then is read
        return {"roots": [{"kind": "endless"}],
                "ops": [["copy"]] + [["take_first"]] * W.pick("lag", [700,
                                                                   900]) +
                       [["take_last"]] * 3 + [["take_first"]] * 2}
      return {"roots": [{"kind": W.pick("mroot", ["endless", "periodic"]),
                         "n": 3}],
              "ops": pattern * W.pick("mlen", [700, 1300])}
    roots = []
    for _ in range(W.weighted("nroots", [(3, 1), (2, 2)])):
      kind = W.weighted("rkind", [(10, "finite"), (4, "chain"),
                                  (4, "periodic"), (2, "endless"),
                                  (2, "repeat_n"), (1, "lit_repeat_n"),
                                  (1, "list"), (1, "range"), (1, "gen"),
                                  (2, "odd"), (1, "control"), (1, "mixer"),
                                  (1, "tostream"), (1, "lit_count"),
                                  (1, "lit_chain"), (1, "periodic_adv"),
                                  (1, "consts")])
      if kind == "finite":
        roots.append({"kind": kind, "len": W.choose("len", 13)})
      elif kind == "chain":
        roots.append({"kind": kind, "lens": [W.choose("len", 6),
                                             W.choose("len", 6)]})
      elif kind == "periodic":
        roots.append({"kind": kind, "n": W.span("per", 1, 4)})
      elif kind in ("repeat_n", "lit_repeat_n", "list", "range", "gen",
                    "odd", "mixer", "tostream", "lit_chain"):
        roots.append({"kind": kind, "len": W.choose("len", 8)})
      elif kind == "periodic_adv":
        # a periodic stream that was already advanced when the history starts
        roots.append({"kind": kind, "n": W.span("per", 1, 4),
                      "adv": W.span("adv", 1, 5)})
      else:
        roots.append({"kind": kind})
    ops = []
    n = W.span("nops", 1, 30 if W.chance("long", 1, 3) else 10)
    # hubs made from a str (items are letters): as with the "odd" roots, no
    # arithmetic map / predicate is applied in such a history
    has_str = W.chance("str-hub", 1, 8)
    odd = any(r["kind"] == "odd" for r in roots) or has_str
    for _ in range(n):
      op = W.weighted("op", [(6, "take"), (4, "peek"), (3, "skip"),
                             (3, "limit"), (2, "append_list"),
                             (2, "append_handle"), (1, "append_scalars"),
                             (2, "map"), (2, "filter"),
                             (5, "copy"), (2, "tee"), (3, "thub"),
                             (4, "hub_use"), (2, "next_it"), (2, "for"),
                             (1, "thub_scalar"), (1, "rewrap"),
                             (1, "thub_raw"), (2, "derive"),
                             (1, "tee_raw"), (1, "ctor2")])
      if odd and op == "filter":
        # items that are None / falsy / not numbers: only filter(None) and
        # filter(bool) make sense on them
        ops.append([op, len(PREDS) - 1 - W.choose("oddp", 2)])
        continue
      if odd and op in ("map", "derive"):
        op = "copy"
      if op in ("take", "peek"):
        ctor = W.weighted("ctor", [(8, None), (1, "tuple"), (1, "set"),
                                   (1, "sum"), (1, "sorted_desc")])
        if odd and ctor not in (None, "tuple"):
          ctor = "tuple"      # items are not numbers / not comparable
        ops.append([op, W.weighted("cat", CATS_TAKE), W.choose("r", 8),
                    ctor])
      elif op in ("skip", "limit"):
        ops.append([op, W.weighted("cat", CATS_CUT), W.choose("r", 8)])
      elif op == "append_list":
        ops.append([op, W.choose("n", 4), W.choose("two", 2)])
      elif op == "append_scalars":
        ops.append([op, W.span("n", 1, 3)])
      elif op == "map":
        ops.append([op, W.choose("f", len(MAPS))])
      elif op == "filter":
        ops.append([op, W.choose("p", len(PREDS))])
      elif op in ("tee", "thub"):
        ops.append([op, W.choose("n", 4)])
      elif op == "hub_use":
        ops.append([op, W.choose("how", 2)])
      elif op == "for":
        ops.append([op, W.choose("k", 5)])
      elif op == "derive":
        ops.append([op, W.choose("d", len(DERIVE))])
      elif op == "tee_raw":
        ops.append([op, W.choose("itkind", len(RAW_ITERATORS)),
                    W.choose("rawlen", 5), W.span("n", 1, 3)])
      elif op == "thub_raw":
        kinds = [i for i, k in enumerate(RAW_ITERABLES)
                 if has_str or k != "str"]
        ops.append([op, 2 if has_str and W.chance("str", 1, 2)
                    else W.pick("rawkind", kinds),
                    W.choose("rawlen", 5), W.span("n", 1, 3)])
      elif op == "thub_scalar":
        ops.append([op, W.choose("obj", len(NON_ITERABLES)),
                    W.choose("n", 3)])
      else:
        ops.append([op])
    return {"roots": roots, "ops": ops}

  def shrink_candidates(self, workload):
    for ops in drop_candidates(workload["ops"]):
      yield {"roots": workload["roots"], "ops": ops}
    if len(workload["roots"]) > 1:
      for i in range(len(workload["roots"])):
        yield {"roots": workload["roots"][:i] + workload["roots"][i + 1:],
               "ops": workload["ops"]}
    for i, r in enumerate(workload["roots"]):
      if r["kind"] == "finite" and r["len"] > 0:
        for ln in (0, r["len"] // 2, r["len"] - 1):
          if ln < r["len"]:
            roots = [dict(x) for x in workload["roots"]]
            roots[i]["len"] = ln
            yield {"roots": roots, "ops": workload["ops"]}

  def corpus(self):
    fin = lambda n: {"kind": "finite", "len": n}
    return [
      {"roots": [fin(2)], "ops": [["take", "beyond", 0]]},
      {"roots": [fin(2)], "ops": [["peek", "beyond", 1], ["take", "exact", 0]]},
      {"roots": [fin(3)], "ops": [["limit", "beyond", 2], ["take", "inf", 0]]},
      {"roots": [fin(3)], "ops": [["skip", "beyond", 0], ["take", "none", 0]]},
      {"roots": [fin(5)], "ops": [["copy"], ["take", "within", 2], ["copy"],
                                  ["skip", "within", 1], ["take", "inf", 0]]},
      {"roots": [fin(4)], "ops": [["thub", 2], ["hub_use", 0], ["hub_use", 1],
                                  ["hub_use", 0]]},
      {"roots": [fin(6)], "ops": [["tee", 3], ["take", "within", 1],
                                  ["take", "within", 3], ["peek", "float", 2]]},
      {"roots": [{"kind": "periodic", "n": 3}],
       "ops": [["copy"], ["limit", "within", 4], ["take", "inf", 0],
               ["take", "within", 5]]},
      {"roots": [fin(4), fin(3)], "ops": [["append_handle"], ["take", "inf",
                                                              0]]},
      {"roots": [fin(6)], "ops": [["filter", 0], ["copy"], ["map", 1],
                                  ["take", "beyond", 0], ["take", "none", 0]]},
      {"roots": [fin(3)], "ops": [["thub", 1], ["peek", "within", 1],
                                  ["hub_use", 0], ["peek", "zero", 0]]},
      {"roots": [fin(2)], "ops": [["append_scalars", 2], ["take", "beyond",
                                                          3]]},
      {"roots": [fin(6)], "ops": [["peek", "within", 3, "sorted_desc"],
                                  ["peek", "within", 2, "set"],
                                  ["take", "within", 1, "tuple"],
                                  ["take", "inf", 0]]},
      {"roots": [{"kind": "repeat_n", "len": 5}],
       "ops": [["copy"], ["take", "within", 1], ["peek", "within", 2],
               ["take", "inf", 0]]},
      {"roots": [fin(1)], "ops": [["append_scalars", 1], ["copy"],
                                  ["take", "within", 3], ["take", "within",
                                                          2]]},
    ]

  def extra_schedules(self):
    return 6

  # --------------------------------------------------------------------- run
  def run(self, workload, S, want_sample=False):
    res = RunResult()
    events = []
    ctx = _Ctx(self, S, res, events)
    try:
      ctx.build_roots(workload["roots"])
      for op in workload["ops"]:
        ctx.step(op)
      ctx.final_drain()
    except _Mismatch as mm:
      res.violation = Violation("model-mismatch", mm.what, mm.detail)
    except SimStall as st:
      res.violation = Violation("hang", "over-read-of-endless-source",
                                "%s (operation %d)" % (st, ctx.nsteps))
    for src in ctx.sources:
      if src.eof_hits:
        res.counters["fault.eof-at"] += 1
      if src.length is None and src.delivered:
        res.counters["fault.endless"] += 1
    res.steps = ctx.nsteps
    res.digest = digest_events(events)
    fired = any(k.startswith(("probe.", "fault.eof")) and v
                for k, v in res.counters.items())
    if ctx.nsteps >= 3 and fired:
      res.nontrivial_key = stable_hash((workload, ctx.choices))
    if want_sample:
      res.sample = {"roots": workload["roots"], "history": events[:60]}
    return res


class _Ctx(object):
  def __init__(self, prop, S, res, events):
    self.p, self.S, self.res, self.events = prop, S, res, events
    self.pool = []
    self.sources = []
    self.next_hid = 0
    self.next_sid = 1
    self.nsteps = 0
    self.choices = []
    self.last_family_consumer = {}
    self.alternations = {}

  # -- construction
  def new_source(self, length):
    src = SimSource(self.next_sid, length)
    if length is None:
      src.budget, src.slack = 12000, 0    # an eager stage must not hang us
    self.next_sid += 1
    self.sources.append(src)
    return src

  def add(self, kind, real, model, uses=0, gen=0, family=None):
    h = Handle(self.next_hid, kind, real, model, uses, gen,
               self.next_hid if family is None else family)
    self.next_hid += 1
    self.pool.append(h)
    if len(self.pool) > MAX_POOL:
      victim = self.pool.pop(self.S.choose("forget", len(self.pool) - 1))
      self.events.append("forget h%d" % victim.hid)
    if gen >= 3:
      self.res.counters["probe.three-generations-of-copies"] += 1
    return h

  def build_roots(self, roots):
    Stream = self.p.Stream
    for r in roots:
      if r["kind"] == "finite":
        src = self.new_source(r["len"])
        self.add("stream", Stream(src), HandleModel(FnSeq(src.value_fn,
                                                          r["len"])))
      elif r["kind"] == "endless":
        src = self.new_source(None)
        self.add("stream", Stream(src), HandleModel(FnSeq(src.value_fn,
                                                          None)))
      elif r["kind"] == "chain":
        a, b = self.new_source(r["lens"][0]), self.new_source(r["lens"][1])
        self.add("stream", Stream(a, b), HandleModel(AppendSeq(
          FnSeq(a.value_fn, a.length), FnSeq(b.value_fn, b.length))))
      elif r["kind"] in ("repeat_n", "lit_repeat_n"):
        import itertools
        if r["kind"] == "repeat_n":
          real = Stream(itertools.repeat(77, r["len"]))
        else:
          from audiolazy import lazy_itertools
          real = lazy_itertools.repeat(77, r["len"])
        self.add("stream", real, HandleModel(ListSeq([77] * r["len"])))
      elif r["kind"] == "odd":
        vals = ODD_VALUES[:r["len"]]
        self.add("stream", Stream(list(vals)), HandleModel(ListSeq(vals)))
      elif r["kind"] == "consts":
        # constant streams of equal-but-different scalars, one after the
        # other: each yields its own value (type, sign of zero included)
        from fractions import Fraction
        for v in (1, 1.0, True, Fraction(1), 0, -0.0, 0.0, False):
          self.add("stream", Stream(v), HandleModel(
            FnSeq(lambda i, v=v: v, None)))
      elif r["kind"] == "control":
        # Stream subclasses inherit every method of the statement
        from audiolazy import lazy_stream
        self.add("stream", lazy_stream.ControlStream(5),
                 HandleModel(FnSeq(lambda i: 5, None)))
      elif r["kind"] == "mixer":
        from audiolazy import lazy_stream
        vals = list(range(60, 60 + r["len"]))
        mix = lazy_stream.Streamix()
        mix.add(2, list(vals))
        # (the default zero of a mixer is the float 0.0)
        self.add("stream", mix, HandleModel(ListSeq(
          [0.0, 0.0] + [0.0 + v for v in vals])))
      elif r["kind"] == "tostream":
        from audiolazy import lazy_stream
        vals = list(range(50, 50 + r["len"]))

        @lazy_stream.tostream
        def produce(data):
          for v in data:
            yield v
        self.add("stream", produce(vals), HandleModel(ListSeq(vals)))
      elif r["kind"] == "lit_count":
        from audiolazy import lazy_itertools
        self.add("stream", lazy_itertools.count(30),
                 HandleModel(FnSeq(lambda i: 30 + i, None)))
      elif r["kind"] == "lit_chain":
        from audiolazy import lazy_itertools
        vals = list(range(20, 20 + r["len"]))
        self.add("stream", lazy_itertools.chain(vals[:2], iter(vals[2:])),
                 HandleModel(ListSeq(vals)))
      elif r["kind"] == "periodic_adv":
        vals = [800 + i for i in range(r["n"])]
        real = Stream(*vals)
        real.take(r["adv"])
        self.add("stream", real, HandleModel(
          FnSeq(lambda i, v=vals, a=r["adv"]: v[(i + a) % len(v)], None)))
      elif r["kind"] in ("list", "range", "gen"):
        vals = list(range(40, 40 + r["len"]))
        real = Stream(vals if r["kind"] == "list" else
                      range(40, 40 + r["len"]) if r["kind"] == "range" else
                      (v for v in vals))
        self.add("stream", real, HandleModel(ListSeq(vals)))
      else:
        vals = [900 + i for i in range(r["n"])]
        real = Stream(*vals)
        self.add("stream", real, HandleModel(
          FnSeq(lambda i, v=vals: v[i % len(v)], None)))
      self.events.append("root %r" % (r,))

  # -- helpers
  def pick(self, kind=None):
    cands = [h for h in self.pool if kind is None or h.kind == kind]
    if not cands:
      return None
    i = self.S.choose("handle", len(cands))
    self.choices.append(i)
    return cands[i]

  def retire(self, h):
    if h in self.pool:
      self.pool.remove(h)

  def rem(self, model):
    refuel()
    try:
      return model.remaining()
    except Starved:
      return None

  def count_for(self, cat, r, rem, allow_inf):
    base = rem if rem is not None else 6
    if cat == "neg":
      return -1 - r
    if cat == "zero":
      return 0
    if cat == "within":
      return 1 + r % base if base >= 1 else 0
    if cat == "exact":
      return base
    if cat == "beyond":
      return base + 1 + r
    if cat == "float":
      k = r % (base + 3)
      if r == 5:
        return 0.49999999999999994    # the largest float below one half
      if r == 6:
        return k + 0.5000000000000001 if k < 4 else k + 0.6
      v = k + FRACS[r % 4]
      return -v if r == 7 else v
    if cat == "fraction":      # a real count that is not a float instance
      from fractions import Fraction
      return Fraction(3 * (r % (base + 3)) + (1 if r % 2 else 2), 3)
    if cat == "inf":
      return math.inf if (allow_inf and rem is not None) else base
    if cat == "ninf":
      return -math.inf
    return None

  @staticmethod
  def eff_take(n):
    """ How many items take/peek(n) is specified to return at most. """
    if isinstance(n, float):
      if math.isinf(n):
        return None if n > 0 else 0
      # nearest integer, computed exactly (n + 0.5 in floating point is
      # already wrong for the largest float below one half)
      from fractions import Fraction
      return int(math.floor(Fraction(n) + Fraction(1, 2))) if n > 0 else 0
    return max(0, n)

  @staticmethod
  def eff_cut(n):
    # (round() of a float is exact: round-half-even on the true value)
    return max(0, int(round(n)))

  def call(self, what, fn):
    # the model has already answered with bounded fuel: a real call that does
    # not come back is a hang of the code under test, not of the harness
    signal.signal(signal.SIGALRM, _on_alarm)
    signal.alarm(HANG_SECONDS)
    try:
      return ("ok", fn())
    except _Hang:
      raise _Mismatch(what + ":hang", "%s did not return within %d s although "
                      "the list model answers from <= 400 source items"
                      % (what, HANG_SECONDS))
    except StopIteration:
      return ("raise", "StopIteration")
    except IndexError:
      return ("raise", "IndexError")
    except Exception as exc:
      return ("raise", type(exc).__name__)
    finally:
      signal.alarm(0)

  def expect(self, what, got, want, text):
    if got[0] != want[0] or \
       (got[0] == "ok" and not strict_same(got[1], want[1])) or \
       (got[0] == "raise" and got[1] != want[1]):
      tag = what + (":value" if got[0] == want[0] == "ok" else
                    ":exception:" + str(got[1]) if got[0] == "raise" else
                    ":no-exception")
      raise _Mismatch(tag, "%s gave %r, list model says %r"
                      % (text, got, want))

  def note_consumer(self, h, n_items):
    if n_items <= 0:
      return
    last = self.last_family_consumer.get(h.family)
    if last is not None and last != h.hid:
      self.alternations[h.family] = self.alternations.get(h.family, 0) + 1
      if self.alternations[h.family] == 3:
        self.res.counters["probe.copies-consumed-alternately"] += 1
    self.last_family_consumer[h.family] = h.hid

  def model_take(self, model, n, consume):
    """ Expected outcome of take/peek(n) on a model handle. """
    if n is None:
      refuel()
      got = model.first(1)
      if not got:
        return ("raise", "StopIteration"), 0
      if consume:
        model.pos += 1
      return ("ok", got[0]), 1
    k = self.eff_take(n)
    if k is None:
      refuel()
      k = model.remaining()
    refuel()
    got = model.first(k)
    if consume:
      model.pos += len(got)
    return ("ok", got), len(got)

  def use_hub(self, h):
    """ Model side of consuming one hub use; returns (ok, model clone). """
    if h.uses <= 0:
      self.res.counters["probe.thub-exhausted"] += 1
      return False, None
    h.uses -= 1
    return True, h.model.clone()

  # -- one operation
  def step(self, op):
    name = op[0]
    self.nsteps += 1
    self.res.counters["op." + name] += 1
    Stream = self.p.Stream
    if name == "thub_scalar":
      obj = NON_ITERABLES[op[1] % len(NON_ITERABLES)]
      got = self.call(name, lambda: self.p.thub(obj, op[2]))
      if got[0] != "ok" or got[1] is not obj:
        raise _Mismatch("thub-scalar", "thub(%r, %d) gave %r" % (obj, op[2],
                                                                 got))
      self.events.append("thub_scalar #%d" % (op[1] % len(NON_ITERABLES)))
      return
    if name == "thub_raw":
      # a hub made straight from an iterable that is not a Stream: list,
      # tuple, str, range, generator, dict, bytes
      rk = RAW_ITERABLES[op[1] % len(RAW_ITERABLES)]
      raw, items = make_raw(rk, op[2])
      got = self.call(name, lambda: self.p.thub(raw, op[3]))
      if got[0] != "ok" or not isinstance(got[1], self.p.StreamTeeHub):
        raise _Mismatch("thub:return", "thub(<%s of %d items>, %d) gave %r"
                        % (rk, len(items), op[3], got))
      nh = self.add("hub", got[1], HandleModel(ListSeq(items)), uses=op[3])
      self.events.append("thub(<%s %d>, %d) -> h%d" % (rk, len(items), op[3],
                                                       nh.hid))
      return
    if name in ("take_first", "take_last"):
      # (directed: the oldest / the newest live handle, six items)
      if self.pool:
        h = self.pool[0 if name == "take_first" else -1]
        try:
          self.op_take(h, ["take", "within", 5, None])
        except Starved:
          self.res.counters["skipped-starved"] += 1
      return
    if name == "tee_raw":
      # lazy_itertools.tee of something that is not a Stream: n independent
      # Streams for any iterator, n times the object itself otherwise
      rk = RAW_ITERATORS[op[1] % len(RAW_ITERATORS)]
      raw, items = make_raw_iterator(rk, op[2])
      got = self.call(name, lambda: self.p.tee(raw, op[3]))
      if rk == "list":
        if got[0] != "ok" or len(got[1]) != op[3] or \
           any(x is not raw for x in got[1]):
          raise _Mismatch("tee:return", "tee(<list>, %d) gave %r" % (op[3],
                                                                    got))
        return
      if got[0] != "ok" or len(got[1]) != op[3] or \
         not all(isinstance(x, self.p.Stream) for x in got[1]):
        raise _Mismatch("tee:return", "tee(<%s of %d items>, %d) gave %r"
                        % (rk, len(items), op[3], got))
      ids = [self.add("stream", x, HandleModel(ListSeq(items))).hid
             for x in got[1]]
      self.events.append("tee(<%s %d>, %d) -> %r" % (rk, len(items), op[3],
                                                    ids))
      return
    if name == "hub_use":
      h = self.pick("hub")
      if h is None:
        return
      ok, model = self.use_hub(h)
      how = op[1]
      got = self.call(name, (lambda: Stream(h.real)) if how == 0 else
                      (lambda: Stream(iter(h.real))))
      if not ok:
        self.expect("hub-use", got, ("raise", "IndexError"),
                    "use of exhausted hub h%d" % h.hid)
      else:
        if got[0] != "ok":
          self.expect("hub-use", got, ("ok", None), "hub use h%d" % h.hid)
        self.add("stream", got[1], model, gen=h.gen + 1, family=h.family)
      self.events.append("hub_use h%d -> %s" % (h.hid, got[0]))
      return
    h = self.pick()
    if h is None:
      return
    try:
      getattr(self, "op_" + name)(h, op)
    except Starved:
      self.res.counters["skipped-starved"] += 1
      self.events.append("%s h%d skipped (needs too many source items)"
                         % (name, h.hid))

  # take / peek
  def op_take(self, h, op):
    if h.kind == "hub":
      return self.op_peek(h, op)
    rem = self.rem(h.model)
    n = self.count_for(op[1], op[2], rem, True)
    if n is not None and rem is not None and self.eff_take(n) is not None \
       and self.eff_take(n) > rem:
      self.res.counters["probe.take-beyond-end"] += 1
    want, k = self.model_take(h.model, n, True)
    ctor = op[3] if len(op) > 3 and n is not None else None
    if ctor:
      want = (want[0], CTORS[ctor](want[1]))
      got = self.call("take", lambda: h.real.take(n,
                                                  constructor=CTORS[ctor]))
    else:
      got = self.call("take", lambda: h.real.take(n) if n is not None
                      else h.real.take())
    self.events.append("take(%r%s) h%d -> %r" % (n, ", constructor=%s" % ctor
                                                 if ctor else "", h.hid,
                                                 want))
    self.expect("take", got, want, "h%d.take(%r)" % (h.hid, n))
    self.note_consumer(h, k)

  def op_peek(self, h, op):
    rem = self.rem(h.model)
    n = self.count_for(op[1], op[2], rem, True)
    if h.kind == "hub":
      self.res.counters["probe.peek-on-hub"] += 1
      if h.uses <= 0:
        got = self.call("peek", lambda: h.real.peek(n) if n is not None
                        else h.real.peek())
        self.events.append("peek(%r) exhausted hub h%d" % (n, h.hid))
        self.expect("hub-peek", got, ("raise", "IndexError"),
                    "peek on exhausted hub h%d" % h.hid)
        return
    if n is not None and rem is not None and self.eff_take(n) is not None \
       and self.eff_take(n) > rem:
      self.res.counters["probe.peek-beyond-end"] += 1
    want, _ = self.model_take(h.model, n, False)
    ctor = op[3] if len(op) > 3 and n is not None else None
    if ctor:
      want = (want[0], CTORS[ctor](want[1]))
      got = self.call("peek", lambda: h.real.peek(n,
                                                  constructor=CTORS[ctor]))
    else:
      got = self.call("peek", lambda: h.real.peek(n) if n is not None
                      else h.real.peek())
    self.events.append("peek(%r%s) h%d -> %r" % (n, ", constructor=%s" % ctor
                                                 if ctor else "", h.hid,
                                                 want))
    self.expect("peek", got, want, "h%d.peek(%r)" % (h.hid, n))

  # in-place transformations (a hub hands out a new Stream instead)
  def _inplace(self, h, name, text, real_call, new_seq):
    if h.kind == "hub":
      ok, model = self.use_hub(h)
      got = self.call(name, lambda: real_call(h.real))
      if not ok:
        self.expect("hub-" + name, got, ("raise", "IndexError"),
                    "%s on exhausted hub h%d" % (text, h.hid))
        self.events.append("%s exhausted hub h%d" % (text, h.hid))
        return
      if got[0] != "ok" or not isinstance(got[1], self.p.Stream):
        raise _Mismatch("hub-" + name, "hub h%d.%s gave %r" % (h.hid, text,
                                                               got))
      model.rebase(new_seq(model.rest()))
      nh = self.add("stream", got[1], model, gen=h.gen + 1, family=h.family)
      self.events.append("%s hub h%d -> h%d" % (text, h.hid, nh.hid))
      return
    got = self.call(name, lambda: real_call(h.real))
    if got[0] != "ok" or got[1] is not h.real:
      raise _Mismatch(name + ":return", "h%d.%s gave %r, expected the stream "
                      "itself" % (h.hid, text, got))
    h.model.rebase(new_seq(h.model.rest()))
    self.events.append("%s h%d" % (text, h.hid))

  def op_skip(self, h, op):
    rem = self.rem(h.model)
    n = self.count_for(op[1], op[2], rem, False)
    k = self.eff_cut(n)
    if rem is not None and k > rem:
      self.res.counters["probe.skip-beyond-end"] += 1
    self._inplace(h, "skip", "skip(%r)" % (n,), lambda r: r.skip(n),
                  lambda rest: DropSeq(rest, k))

  def op_limit(self, h, op):
    rem = self.rem(h.model)
    n = self.count_for(op[1], op[2], rem, False)
    k = self.eff_cut(n)
    if rem is not None and k > rem:
      self.res.counters["probe.limit-beyond-end"] += 1
    self._inplace(h, "limit", "limit(%r)" % (n,), lambda r: r.limit(n),
                  lambda rest: LimitSeq(rest, k))

  def op_map(self, h, op):
    nm, f = MAPS[op[1]]
    self._inplace(h, "map", "map(%s)" % nm, lambda r: r.map(f),
                  lambda rest: MapSeq(f, rest))

  def op_filter(self, h, op):
    nm, pr = PREDS[op[1]]
    self._inplace(h, "filter", "filter(%s)" % nm, lambda r: r.filter(pr),
                  lambda rest: FilterSeq(pr if pr is not None else bool,
                                         rest))

  def op_append_list(self, h, op):
    a = [700000 + self.nsteps * 10 + i for i in range(op[1])]
    if op[2]:
      b = [800000 + self.nsteps * 10 + i for i in range(2)]
      self._inplace(h, "append", "append(%r, %r)" % (a, b),
                    lambda r: r.append(a, b),
                    lambda rest: AppendSeq(rest, ListSeq(a + b)))
    else:
      self._inplace(h, "append", "append(%r)" % (a,), lambda r: r.append(a),
                    lambda rest: AppendSeq(rest, ListSeq(a)))

  def op_append_scalars(self, h, op):
    # append(c1, c2, ...) with non-iterables: Stream(*others) is periodic
    vals = [600000 + self.nsteps * 10 + i for i in range(op[1])]
    self._inplace(h, "append", "append(%s)" % ", ".join(map(str, vals)),
                  lambda r: r.append(*vals),
                  lambda rest: AppendSeq(rest, FnSeq(
                    lambda i, v=vals: v[i % len(v)], None)))

  def op_append_handle(self, h, op):
    others = [o for o in self.pool if o is not h]
    if not others or h.kind == "hub":
      return
    o = others[self.S.choose("other", len(others))]
    if o.kind == "hub":
      ok, omodel = self.use_hub(o)
      if not ok:
        got = self.call("append", lambda: h.real.append(o.real))
        self.expect("append-hub", got, ("raise", "IndexError"),
                    "append of exhausted hub h%d" % o.hid)
        self.events.append("append exhausted hub h%d to h%d" % (o.hid, h.hid))
        return
    else:
      omodel = o.model.clone()
      self.retire(o)
    tail = omodel.rest()
    self._inplace(h, "append", "append(h%d)" % o.hid,
                  lambda r: r.append(o.real),
                  lambda rest: AppendSeq(rest, tail))

  # copies
  def op_copy(self, h, op):
    if h.kind == "hub":
      got = self.call("copy", lambda: h.real.copy())
      if h.uses <= 0:
        self.expect("hub-copy", got, ("raise", "IndexError"),
                    "copy of exhausted hub h%d" % h.hid)
        self.events.append("copy exhausted hub h%d" % h.hid)
        return
    else:
      got = self.call("copy", lambda: h.real.copy())
    if got[0] != "ok" or not isinstance(got[1], self.p.Stream) or \
       got[1] is h.real:
      raise _Mismatch("copy:return", "h%d.copy() gave %r" % (h.hid, got))
    nh = self.add("stream", got[1], h.model.clone(), gen=h.gen + 1,
                  family=h.family)
    self.events.append("copy h%d -> h%d" % (h.hid, nh.hid))

  def _source_of(self, h, what):
    """ Hand h to a consumer that calls iter() on it (retired / one use). """
    if h.kind == "hub":
      ok, model = self.use_hub(h)
      return ok, model
    self.retire(h)
    return True, h.model.clone()

  def op_tee(self, h, op):
    n = op[1]
    if n == 0 and h.kind == "hub":
      n = 1     # itertools.tee(x, 0) never touches x: a use is not defined
    ok, model = self._source_of(h, "tee")
    got = self.call("tee", lambda: self.p.tee(h.real, n))
    if not ok:
      self.expect("hub-tee", got, ("raise", "IndexError"),
                  "tee of exhausted hub h%d" % h.hid)
      self.events.append("tee exhausted hub h%d" % h.hid)
      return
    if got[0] != "ok" or len(got[1]) != n or \
       not all(isinstance(s, self.p.Stream) for s in got[1]):
      raise _Mismatch("tee:return", "tee(h%d, %d) gave %r" % (h.hid, n, got))
    ids = []
    for s in got[1]:
      ids.append(self.add("stream", s, model.clone(), gen=h.gen + 1,
                          family=h.family).hid)
    self.events.append("tee(h%d, %d) -> %r" % (h.hid, n, ids))

  def op_thub(self, h, op):
    n = op[1]
    ok, model = self._source_of(h, "thub")
    got = self.call("thub", lambda: self.p.thub(h.real, n))
    if not ok:
      self.expect("hub-thub", got, ("raise", "IndexError"),
                  "thub of exhausted hub h%d" % h.hid)
      self.events.append("thub exhausted hub h%d" % h.hid)
      return
    if got[0] != "ok" or not isinstance(got[1], self.p.StreamTeeHub):
      raise _Mismatch("thub:return", "thub(h%d, %d) gave %r" % (h.hid, n,
                                                                got))
    nh = self.add("hub", got[1], model, uses=n, gen=h.gen + 1,
                  family=h.family)
    self.events.append("thub(h%d, %d) -> h%d" % (h.hid, n, nh.hid))

  def op_derive(self, h, op):
    nm, real_f, model_f = DERIVE[op[1] % len(DERIVE)]
    if h.kind == "hub" and nm.startswith("s."):
      # attribute access / element call on a hub object reads the hub's raw
      # data lazily instead of taking one of its uses: what that means for
      # the n uses is not defined by the statement - operators only
      nm, real_f, model_f = DERIVE[0]
    ok, model = self._source_of(h, "derive")
    got = self.call("derive", lambda: real_f(h.real))
    if not ok:
      self.expect("hub-derive", got, ("raise", "IndexError"),
                  "%s of exhausted hub h%d" % (nm, h.hid))
      return
    if got[0] != "ok" or not isinstance(got[1], self.p.Stream):
      raise _Mismatch("derive:return", "%s of h%d gave %r" % (nm, h.hid, got))
    model.rebase(MapSeq(model_f, model.rest()))
    nh = self.add("stream", got[1], model, gen=h.gen + 1, family=h.family)
    self.events.append("%s of h%d -> h%d" % (nm, h.hid, nh.hid))

  def op_ctor2(self, h, op):
    # Stream(<list>, handle): the constructor's several-iterables route (a
    # chain).  The chain reaches its second part lazily, so the new stream is
    # peeked past the list at once: a hub's use is then spent here and now.
    if h.kind == "hub" and h.uses <= 0:
      return
    lst = [910000 + self.nsteps * 10 + i for i in range(2)]
    # the model answers first: when it cannot tell the third item within its
    # fuel (a filter that never matches over an endless source) the whole
    # operation is skipped - the real peek would search for ever
    trial = HandleModel(AppendSeq(ListSeq(lst), h.model.clone().rest()))
    want, _ = self.model_take(trial, len(lst) + 1, False)    # may starve
    ok, model = self._source_of(h, "ctor2")
    got = self.call("ctor2", lambda: self.p.Stream(list(lst), h.real))
    if got[0] != "ok" or not isinstance(got[1], self.p.Stream):
      raise _Mismatch("ctor2:return", "Stream(%r, h%d) gave %r"
                      % (lst, h.hid, got))
    model.rebase(AppendSeq(ListSeq(lst), model.rest()))
    nh = self.add("stream", got[1], model, gen=h.gen + 1, family=h.family)
    self.expect("ctor2-peek", self.call(
      "ctor2-peek", lambda: got[1].peek(len(lst) + 1)), want,
      "Stream(%r, h%d).peek(3)" % (lst, h.hid))
    self.events.append("Stream(%r, h%d) -> h%d" % (lst, h.hid, nh.hid))

  def op_rewrap(self, h, op):
    # Stream(stream): a new Stream over the same data, the old one retired
    ok, model = self._source_of(h, "rewrap")
    got = self.call("rewrap", lambda: self.p.Stream(h.real))
    if not ok:
      self.expect("hub-rewrap", got, ("raise", "IndexError"),
                  "Stream(exhausted hub h%d)" % h.hid)
      return
    if got[0] != "ok" or not isinstance(got[1], self.p.Stream):
      raise _Mismatch("rewrap:return", "Stream(h%d) gave %r" % (h.hid, got))
    nh = self.add("stream", got[1], model, gen=h.gen + 1, family=h.family)
    self.events.append("Stream(h%d) -> h%d" % (h.hid, nh.hid))

  # plain iteration
  def op_next_it(self, h, op):
    if h.kind == "hub":
      if h.uses > 0:
        # the model answers first (it may starve) and only then commits
        want, _ = self.model_take(h.model.clone(), None, True)
      ok, model = self.use_hub(h)
      got = self.call("next", lambda: next(iter(h.real)))
      if not ok:
        self.expect("hub-iter", got, ("raise", "IndexError"),
                    "iter of exhausted hub h%d" % h.hid)
        return
      self.expect("next", got, want, "next(iter(hub h%d))" % h.hid)
      self.events.append("next(iter(hub h%d)) -> %r" % (h.hid, want))
      return
    want, k = self.model_take(h.model, None, True)
    got = self.call("next", lambda: next(iter(h.real)))
    self.events.append("next(iter(h%d)) -> %r" % (h.hid, want))
    self.expect("next", got, want, "next(iter(h%d))" % h.hid)
    self.note_consumer(h, k)

  def op_for(self, h, op):
    k = op[1]
    if k == 0 and h.kind == "hub":
      k = 1       # the harness loop below does not call iter() for k == 0
    refuel()
    want = h.model.clone().first(k)      # may starve: nothing committed yet
    if h.kind == "hub":
      ok, model = self.use_hub(h)
      if not ok:
        got = self.call("for", lambda: [x for x in h.real])
        self.expect("hub-iter", got, ("raise", "IndexError"),
                    "for over exhausted hub h%d" % h.hid)
        return
    else:
      model = h.model

    def loop():
      out = []
      if k == 0:
        return out
      for x in h.real:
        out.append(x)
        if len(out) == k:
          break
      return out
    model.pos += len(want)
    got = self.call("for", loop)
    self.events.append("for %d items of h%d -> %r" % (k, h.hid, want))
    self.expect("for", got, ("ok", want), "partial for (%d) over h%d"
                % (k, h.hid))
    if h.kind != "hub":
      self.note_consumer(h, len(want))

  # -- at the end every live handle must still agree with the model
  def final_drain(self):
    pool = list(self.pool)
    while pool:
      h = pool.pop(self.S.choose("drain", len(pool)))
      if h.kind == "hub":
        while True:
          ok, model = self.use_hub(h)
          got = self.call("drain", lambda: self.p.Stream(h.real))
          if not ok:
            self.expect("hub-use", got, ("raise", "IndexError"),
                        "use of exhausted hub h%d at the end" % h.hid)
            break
          if got[0] != "ok":
            self.expect("hub-use", got, ("ok", None), "hub use h%d" % h.hid)
          self._drain_one(got[1], model, "hub h%d use" % h.hid)
      else:
        self._drain_one(h.real, h.model, "h%d" % h.hid)

  def _drain_one(self, real, model, text):
    refuel()
    try:
      n = model.remaining()
      want = model.first(n)
      got = self.call("drain", lambda: real.take(math.inf))
    except Starved:
      refuel()
      try:
        want = model.first(5)
      except Starved:
        return
      got = self.call("drain", lambda: real.take(5))
    self.events.append("drain %s -> %r" % (text, want))
    self.expect("final-drain", got, ("ok", want), "draining %s" % text)


PROPERTY = C03
