# -*- coding: utf-8 -*-
"""
C15 - MultiKeyDict / StrategyDict stay coherent under any update history.

Engine B, history only: a seeded operation history is applied to the real
object and to the key-group reference model; every public observable is
compared after every step.  There is no schedule and no fault dimension for
this property (single sequential client, no I/O) - the S stream is unused.
"""
from ..kernel import Property, RunResult, Violation, stable_hash
from ..models.multikey import MultiKeyModel, StrategyModel
from .util import drop_candidates

KEYS = [0, 1, 2, 3, 4, "a", "b", "c", "d", "e", 1.0, True,
        # single keys that are hashable AND iterable (one key each, never a
        # collection of keys), None, and a string longer than one letter
        frozenset((1, 2)), b"ab", range(3), None, "ab"] + \
  list(range(5, 25))            # the tail is used by "wide" runs only
NKEYS_NORMAL = 17
VALS = [0, 1, 2, 3, "x", "y", 1.0, True, (1, 2), (1, 2.0), None, "x"]
NAMES = ["a", "b", "c", "d", "e", "f_g", "h", "pop", "copy", "_inc", "__x",
         "",      # the empty string is a name like any other
         # names that are not in Unicode NFKC normal form, next to the name
         # each of them normalises to: the micro sign / Greek mu, the "fi"
         # ligature / "fi" - four different names, four different attributes
         u"\u00b5", u"\u03bc", u"\ufb01lt", u"filt"]
# "pop" / "copy" collide with dict methods: the instance attribute must still
# be the strategy.  (Names the harness itself calls - keys, key2keys,
# value2keys, strategy, default - are not used as strategy names.)
N_STRATS = 9      # the last two are not callable (a number, a string)


class KeyTuple(tuple):
  """ A tuple subclass (like a namedtuple record) used as a key tuple. """


class FalsyMixin(object):
  def __len__(self):
    return 0          # a callable container that happens to be empty


class Strat(object):
  """ Equal-but-distinct callables: equality and hash by tag only. """

  def __init__(self, tag, serial):
    self.tag, self.serial = tag, serial
    self.__name__ = "strat%d_%d" % (tag, serial)

  def __eq__(self, other):
    return isinstance(other, Strat) and other.tag == self.tag

  def __ne__(self, other):
    return not self == other

  def __hash__(self):
    return hash(("Strat", self.tag))

  def __call__(self, *args, **kwargs):
    return ("strat", self.tag, args, tuple(sorted(kwargs.items())))

  def __repr__(self):
    return "S%d" % self.tag


def make_strats():
  class FalsyStrat(FalsyMixin, Strat):
    pass
  out = [Strat(0, 0), Strat(1, 0), FalsyStrat(2, 0), Strat(0, 1),
         Strat(1, 1)]

  def fn5(*args, **kwargs):
    return ("fn", 5, args, tuple(sorted(kwargs.items())))

  def fn6(*args, **kwargs):
    return ("fn", 6, args, tuple(sorted(kwargs.items())))
  fn5._tag, fn6._tag = "fn5", "fn6"
  out += [fn5, fn6]
  # strategies need not be callable to be stored, grouped and to become the
  # default (only calling the dictionary needs a callable default)
  out += [41, "not-callable"]
  return out


def same_multiset(real_vals, model_vals):
  left = list(model_vals)
  for v in real_vals:
    for i, m in enumerate(left):
      if m == v:
        del left[i]
        break
    else:
      return False
  return not left


class C15(Property):
  id = "C15"
  engine = "dataflow"
  rule = ("seeded operation histories (single-key and key-tuple assignment, "
          "deletion of present/missing keys, construction from a dict, "
          "StrategyDict strategy()/item assignment/del item/del attribute/"
          "call) over small key and value universes that contain "
          "equal-but-distinct values; compared with a key-group reference "
          "model after every step. distinct = distinct history digest; "
          "non-trivial = at least 3 mutating steps and at least one rare "
          "probe (merge by equal value, key moved between groups, group "
          "emptied, default lost/re-chosen, duplicate keys in a tuple) fired")
  components = {"real": ["audiolazy.lazy_core.MultiKeyDict",
                         "audiolazy.lazy_core.StrategyDict"],
                "stub": []}
  assumptions = ["sequential single client: no schedule and no fault "
                 "dimension exists for this property (fault kinds: none)",
                 "values are compared by ==, the grouping relation of the "
                 "statement", "seeded sampling of histories, not exhaustive "
                 "enumeration of the small universe"]

  def setup(self):
    from audiolazy import lazy_core
    self.core = lazy_core

  def budget(self, tier):
    return (200000, 60.0) if tier == "quick" else (30000000, 780.0)

  # ---------------------------------------------------------------- workload
  def gen_workload(self, W, index):
    kind = W.weighted("kind", [(1, "mkd"), (1, "sd")])
    n = W.span("len", 1, 40 if W.chance("long", 1, 4) else 12)
    if W.chance("marathon", 1, 1500):
      n = W.pick("mlen", [600, 1500])     # whatever builds up per update
    ops = []
    small = W.chance("small-universe", 1, 2)
    wide = False
    if kind == "mkd":
      nk = 4 if small else NKEYS_NORMAL
      nv = 3 if small else len(VALS)
      if not small and W.chance("wide", 1, 10):
        # many keys, few values: groups with 15-25 keys
        wide, nk, nv, n = True, len(KEYS), 2, max(n, 30)
      for _ in range(n):
        op = W.weighted("op", [(10, "set"), (6, "sett"), (6, "del"),
                               (2, "gett"), (2, "rebuild"), (1, "copycon"),
                               (2, "swap"), (1, "delt"), (2, "setlooked")])
        if wide and op in ("del", "rebuild", "swap", "copycon", "delt"):
          op = "set"
        if op == "set":
          ops.append(["set", W.choose("k", nk), W.choose("v", nv)])
        elif op == "sett":
          m = W.span("tl", 1, 4)
          ops.append(["sett", [W.choose("k", nk) for _ in range(m)],
                      W.choose("v", nv), W.choose("subclass", 4) == 3])
        elif op == "del":
          ops.append(["del", W.choose("k", nk)])
        elif op == "setlooked":
          # d[d.key2keys(k)] = v / d[d.value2keys(v0)] = v: the key tuple is
          # the very object the dictionary handed out
          ops.append(["setlooked", W.choose("k", nk), W.choose("v", nv),
                      W.choose("via", 3)])
        elif op in ("gett", "delt"):
          m = W.span("tl", 0 if op == "delt" else 1, 3)
          ops.append([op, [W.choose("k", nk) for _ in range(m)]])
        elif op in ("copycon", "swap"):
          ops.append([op])
        else:
          m = W.span("nd", 0, 5)
          pairs = []
          for _ in range(m):
            if W.chance("tuplekey", 1, 4):
              key = [W.choose("k", nk) for _ in range(W.span("tl", 1, 3))]
            else:
              key = W.choose("k", nk)
            pairs.append([key, W.choose("v", nv)])
          ops.append(["rebuild", pairs, W.choose("kw", 2)])
    else:
      nn = 3 if small else len(NAMES)
      nf = 3 if small else N_STRATS
      for _ in range(n):
        op = W.weighted("op", [(8, "strategy"), (6, "set"), (4, "sett"),
                               (8, "del"), (4, "delattr"), (2, "call"),
                               (1, "setattr"), (2, "swap")])
        if op in ("strategy", "sett"):
          m = W.span("tl", 1, 3)
          ent = [op, [W.choose("n", nn) for _ in range(m)], W.choose("f", nf)]
          if op == "strategy":
            ent.append(W.choose("keep", 2))
          ops.append(ent)
        elif op == "set":
          ops.append(["set", W.choose("n", nn), W.choose("f", nf)])
        elif op == "swap":
          ops.append(["swap"])
        elif op in ("del", "delattr", "setattr"):
          ops.append([op, W.choose("n", nn)])
        else:
          ops.append(["call", W.choose("a", 3)])
    return {"kind": kind, "ops": ops, "wide": wide}

  def shrink_candidates(self, workload):
    for ops in drop_candidates(workload["ops"]):
      yield {"kind": workload["kind"], "ops": ops,
             "wide": workload.get("wide", False)}

  def corpus(self):
    return [
      {"kind": "mkd", "ops": [["set", 1, 3], ["set", 2, 3], ["set", 4, 2],
                              ["set", 1, 2], ["del", 2], ["del", 2]]},
      {"kind": "mkd", "ops": [["sett", [1, 2, 1], 0], ["sett", [2, 3], 0],
                              ["set", 10, 6], ["set", 11, 1], ["del", 1]]},
      {"kind": "mkd", "ops": [["rebuild", [[1, 4], [2, 5], [3, 4]], 0],
                              ["del", 2], ["del", 3], ["del", 3]]},
      {"kind": "mkd", "ops": [["rebuild", [[[1, 2], 3], [4, 3], [[2, 0], 1]],
                               0], ["copycon"], ["set", 1, 1], ["copycon"],
                              ["del", 4]]},
      {"kind": "sd", "ops": [["strategy", [0], 0, 0], ["strategy", [1, 2], 1,
                                                     0], ["call", 1],
                             ["del", 0], ["set", 3, 2], ["call", 0]]},
      {"kind": "sd", "ops": [["set", 0, 0], ["set", 1, 3], ["del", 0],
                             ["delattr", 1], ["set", 2, 1], ["call", 2]]},
      {"kind": "sd", "ops": [["set", 0, 0], ["setattr", 0], ["set", 0, 1],
                             ["setattr", 0], ["del", 0], ["set", 0, 2]]},
      {"kind": "sd", "ops": [["sett", [0, 1], 0], ["set", 0, 1], ["del", 1],
                             ["set", 1, 5], ["delattr", 0], ["set", 0, 6]]},
    ]

  # --------------------------------------------------------------------- run
  def run(self, workload, S, want_sample=False):
    res = RunResult()
    res.states = []
    events = []
    probes = set()
    mutating = 0
    try:
      self.nobs = len(KEYS) if workload.get("wide") else NKEYS_NORMAL
      if workload["kind"] == "mkd":
        mutating = self._run_mkd(workload["ops"], events, probes, res)
      else:
        mutating = self._run_sd(workload["ops"], events, probes, res)
    except _Mismatch as mm:
      res.violation = Violation(mm.klass, workload["kind"] + ":" + mm.what,
                                mm.detail)
    for p in probes:
      res.counters["probe." + p] += 1
    res.counters["runs." + workload["kind"]] += 1
    res.steps = len(workload["ops"])
    from ..kernel import digest_events
    res.digest = digest_events(events)
    if mutating >= 3 and probes:
      res.nontrivial_key = stable_hash((workload["kind"], workload["ops"]))
    if want_sample:
      res.sample = {"kind": workload["kind"],
                    "history": self.decode(workload), "events": events[-12:]}
    return res

  def decode(self, workload):
    out = []
    if workload["kind"] == "mkd":
      for op in workload["ops"]:
        if op[0] == "set":
          out.append("d[%r] = %r" % (KEYS[op[1]], VALS[op[2]]))
        elif op[0] == "sett":
          out.append("d[%r] = %r" % (tuple(KEYS[k] for k in op[1]),
                                     VALS[op[2]]))
        elif op[0] == "del":
          out.append("del d[%r]" % (KEYS[op[1]],))
        elif op[0] == "gett":
          out.append("d[%r]" % (tuple(KEYS[k] for k in op[1]),))
        elif op[0] == "delt":
          out.append("del d[%r]" % (tuple(KEYS[k] for k in op[1]),))
        elif op[0] == "setlooked":
          how = ["d.key2keys(%r)", "d.value2keys(d[%r])",
                 "<the tuple of d.keys() holding %r>"][op[3]]
          out.append("d[%s] = %r" % (how % (KEYS[op[1]],), VALS[op[2]]))
        else:
          if op[0] == "copycon":
            out.append("d = MultiKeyDict(d)")
            continue
          if op[0] == "swap":
            out.append("<continue on the other MultiKeyDict instance>")
            continue
          out.append("d = MultiKeyDict(%r)" % (
            [(tuple(KEYS[x] for x in k) if isinstance(k, list) else KEYS[k],
              VALS[v]) for k, v in op[1]],))
    else:
      for op in workload["ops"]:
        if op[0] == "strategy":
          out.append("sd.strategy(%s%s)(f%d)" % (
            ", ".join(repr(NAMES[n]) for n in op[1]),
            ", keep_name=True" if op[3] else "", op[2]))
        elif op[0] == "sett":
          out.append("sd[%r] = f%d" % (tuple(NAMES[n] for n in op[1]), op[2]))
        elif op[0] == "set":
          out.append("sd[%r] = f%d" % (NAMES[op[1]], op[2]))
        elif op[0] == "del":
          out.append("del sd[%r]" % NAMES[op[1]])
        elif op[0] == "delattr":
          out.append("del sd.%s" % NAMES[op[1]])
        elif op[0] == "setattr":
          out.append("sd.%s = <junk>" % NAMES[op[1]])
        elif op[0] == "swap":
          out.append("<continue on the other StrategyDict instance>")
        else:
          out.append("sd(*range(%d))" % op[1])
    return out

  # -- MultiKeyDict
  def _run_mkd(self, ops, events, probes, res):
    d = self.core.MultiKeyDict()
    m = MultiKeyModel()
    mutating = 0
    shadows = []
    twin = []
    # a decoy instance filled before the run starts and kept alive: state
    # shared between instances shows up inside this very run (so that the
    # replay of a single run reproduces it)
    decoy, decoy_m = self.core.MultiKeyDict(), MultiKeyModel()
    for k, v in ((KEYS[1], VALS[5]), ((KEYS[6], KEYS[2]), VALS[4])):
      try:
        decoy[k] = v
      except Exception as exc:
        raise _Mismatch("unexpected-exception", "second-instance",
                        "filling a second instance raised %r" % (exc,))
      decoy_m.assign(k, v)
    shadows.append((decoy, decoy_m))
    self._observe_mkd(d, m, "init")
    for op in ops:
      name = op[0]
      res.counters["op." + name] += 1
      if name == "set" or name == "sett":
        key = KEYS[op[1]] if name == "set" else tuple(KEYS[k] for k in op[1])
        if name == "sett" and len(op) > 3 and op[3]:
          key = KeyTuple(key)          # isinstance(key, tuple) still holds
          probes.add("tuple-subclass-as-key-tuple")
        val = VALS[op[2]]
        try:
          d[key] = val
        except Exception as exc:
          raise _Mismatch("unexpected-exception", "setitem",
                          "d[%r] = %r raised %r" % (key, val, exc))
        probes |= m.assign(key, val)
        mutating += 1
      elif name == "setlooked":
        key, val = KEYS[op[1]], VALS[op[2]]
        try:
          if op[3] == 0:
            kt = d.key2keys(key)
          elif op[3] == 1:
            kt = d.value2keys(d[key])
          else:
            kt = [k for k in d.keys() if key in k][0]
        except (KeyError, IndexError):
          kt = None                   # the key is not there
        if kt is not None:
          try:
            d[kt] = val
          except Exception as exc:
            raise _Mismatch("unexpected-exception", "setitem",
                            "d[<looked-up %r>] = %r raised %r"
                            % (kt, val, exc))
          probes |= m.assign(tuple(kt), val)
          probes.add("assignment-through-a-looked-up-key-tuple")
          mutating += 1
      elif name == "del":
        key = KEYS[op[1]]
        self._same_outcome(lambda: d.__delitem__(key),
                           lambda: m.delete(key), "del", "del d[%r]" % (key,))
        mutating += 1
      elif name == "gett":
        keys = tuple(KEYS[k] for k in op[1])
        self._same_outcome(lambda: d[keys], lambda: m.get_tuple(keys),
                           "getitem-tuple", "d[%r]" % (keys,))
      elif name == "delt":
        # a tuple is never a key of the key -> value map: KeyError, and
        # nothing may change (checked by the observation below)
        keys = tuple(KEYS[k] for k in op[1])
        try:
          del d[keys]
          raise _Mismatch("model-mismatch", "del-tuple",
                          "del d[%r] did not raise KeyError" % (keys,))
        except KeyError:
          pass
        except _Mismatch:
          raise
        except Exception as exc:
          raise _Mismatch("unexpected-exception", "del-tuple",
                          "del d[%r] raised %r" % (keys,  exc))
      elif name == "swap":
        # a second, independent instance is alive at the same time: work
        # continues on the other one, the parked one must not change
        if not twin:
          twin.append((self.core.MultiKeyDict(), MultiKeyModel()))
        (d, m), twin[0] = twin[0], (d, m)
        probes.add("two-instances-alive")
      elif name == "copycon":
        # the source stays alive: it must not change when the copy does
        import copy as _copy
        shadows.append((d, _copy.deepcopy(m)))
        del shadows[1:-2]           # the decoy (first) always stays
        try:
          d = self.core.MultiKeyDict(d)
        except Exception as exc:
          raise _Mismatch("unexpected-exception", "construct",
                          "MultiKeyDict(<MultiKeyDict>) raised %r" % (exc,))
        mutating += 1
      elif name == "rebuild":
        pairs = [(tuple(KEYS[x] for x in k) if isinstance(k, list)
                  else KEYS[k], VALS[v]) for k, v in op[1]]
        src = {}
        for k, v in pairs:
          src[k] = v
        try:
          if len(op) > 2 and op[2] and src and \
             all(isinstance(k, str) for k in src):
            d = self.core.MultiKeyDict(**src)       # keyword constructor
            probes.add("keyword-constructor")
          elif len(op) > 2 and op[2] and src and \
              any(isinstance(k, str) for k in src):
            # positional source AND keywords: dict(src, **kw) semantics
            kw = dict((k, v) for k, v in src.items() if isinstance(k, str))
            pos = dict(pairs[:max(1, len(pairs) // 2)])
            d = self.core.MultiKeyDict(pos, **kw)
            src = dict(pos)
            src.update(kw)
            probes.add("positional-and-keyword-constructor")
          elif len(op) > 2 and op[2] and src:
            d = self.core.MultiKeyDict(list(src.items()))   # pairs
          else:
            d = self.core.MultiKeyDict(src)
        except Exception as exc:
          raise _Mismatch("unexpected-exception", "construct",
                          "MultiKeyDict(%r) raised %r" % (src, exc))
        m = MultiKeyModel()
        for k, v in src.items():
          m.assign(k, v)
        # iteration order of the source dict is not part of the statement:
        # adopt the observed order inside each group after checking the sets
        for g in m.groups:
          try:
            seen = d.key2keys(g[1][0])
          except Exception as exc:
            raise _Mismatch("model-mismatch", "construct",
                            "key2keys(%r) raised %r" % (g[1][0], exc))
          if sorted(map(repr, seen)) != sorted(map(repr, g[1])) or \
             len(seen) != len(g[1]):
            raise _Mismatch("model-mismatch", "construct",
                            "group of %r is %r, model %r" % (g[0], seen, g[1]))
          g[1] = tuple(seen)
        mutating += 1
      events.append("%s %r" % (name, m.canon()))
      res.states.append(stable_hash(m.canon()))
      self._observe_mkd(d, m, name)
      for od, om in shadows:
        self._observe_mkd(od, om, name + " (on its copy)")
      for od, om in twin:
        self._observe_mkd(od, om, name + " (on the other instance)")
      if shadows:
        probes.add("source-of-a-copy-still-alive")
    return mutating

  def _same_outcome(self, real, model, what, text):
    try:
      r = ("ok", real())
    except KeyError:
      r = ("KeyError", None)
    except Exception as exc:
      raise _Mismatch("unexpected-exception", what,
                      "%s raised %r" % (text, exc))
    try:
      e = ("ok", model())
    except KeyError:
      e = ("KeyError", None)
    if r[0] != e[0] or (r[0] == "ok" and not (r[1] == e[1])):
      raise _Mismatch("model-mismatch", what,
                      "%s gave %r, model says %r" % (text, r, e))

  def _observe_mkd(self, d, m, after):
    for k in KEYS[:getattr(self, "nobs", NKEYS_NORMAL)]:
      self._same_outcome(lambda: d[k], lambda: m.get(k), "getitem",
                         "d[%r] after %s" % (k, after))
      self._same_outcome(lambda: d.key2keys(k), lambda: m.key2keys(k),
                         "key2keys", "key2keys(%r) after %s" % (k, after))
    for v in VALS:
      self._same_outcome(lambda: d.value2keys(v), lambda: m.value2keys(v),
                         "value2keys", "value2keys(%r) after %s" % (v, after))
    if len(d) != len(m):
      raise _Mismatch("model-mismatch", "len", "len(d)=%d, model %d after %s"
                      % (len(d), len(m), after))
    it_vals = list(d)
    if not same_multiset(it_vals, m.values()):
      raise _Mismatch("model-mismatch", "iter", "list(d)=%r, model %r after "
                      "%s" % (it_vals, m.values(), after))
    kt = list(d.keys())
    if not same_multiset(kt, m.key_tuples()):
      raise _Mismatch("model-mismatch", "keys", "d.keys()=%r, model %r after "
                      "%s" % (kt, m.key_tuples(), after))
    for keys in m.key_tuples():
      self._same_outcome(lambda: d[keys], lambda: m.get_tuple(keys),
                         "getitem-tuple", "d[%r] after %s" % (keys, after))
    # guarded white-box agreement of the three internal maps
    kd = getattr(d, "_keys_dict", None)
    iv = getattr(d, "_inv_dict", None)
    if isinstance(kd, dict) and isinstance(iv, dict):
      if len(iv) != len(m) or len(kd) != len(m.all_keys()) or \
         dict.__len__(d) != len(m):
        raise _Mismatch("model-mismatch", "internal-maps",
                        "sizes keys=%d inv=%d store=%d, model keys=%d "
                        "groups=%d after %s" % (len(kd), len(iv),
                                                dict.__len__(d),
                                                len(m.all_keys()), len(m),
                                                after))
      for val, keys in ((g[0], g[1]) for g in m.groups):
        if iv.get(val) != keys or dict.get(d, keys, _Mismatch) != val or \
           any(kd.get(k) != keys for k in keys):
          raise _Mismatch("model-mismatch", "internal-maps",
                          "maps disagree on group %r -> %r after %s"
                          % (keys, val, after))

  # -- StrategyDict
  def _run_sd(self, ops, events, probes, res):
    sd = self.core.StrategyDict("sim_sd")
    m = StrategyModel()
    strats = make_strats()
    mutating = 0
    self.dirty = set()     # names whose attribute was overwritten by hand
    twin = []
    decoy_sd, decoy_m = self.core.StrategyDict("sim_sd_decoy"), StrategyModel()
    decoy_f = Strat(9, 0)
    try:
      decoy_sd[NAMES[0], NAMES[5]] = decoy_f
    except Exception as exc:
      raise _Mismatch("unexpected-exception", "second-instance",
                      "filling a second instance raised %r" % (exc,))
    decoy_m.s_assign((NAMES[0], NAMES[5]), decoy_f)
    decoys = [(decoy_sd, decoy_m, set())]
    self._observe_sd(sd, m, "init")
    for op in ops:
      name = op[0]
      res.counters["op.sd-" + name] += 1
      if name in ("strategy", "sett", "set"):
        names = NAMES[op[1]] if name == "set" else \
          tuple(NAMES[n] for n in op[1])
        f = strats[op[2]]
        if name == "strategy" and not callable(f):
          name = "sett"       # the decorator route is for functions
        try:
          if name == "strategy":
            ret = sd.strategy(*names, **({"keep_name": True} if op[3]
                                         else {}))(f)
            if ret is not sd:
              raise _Mismatch("model-mismatch", "strategy-return",
                              "strategy()(f) returned %r" % (ret,))
          else:
            sd[names] = f
        except _Mismatch:
          raise
        except Exception as exc:
          raise _Mismatch("unexpected-exception", "setitem",
                          "sd[%r] = %r raised %r" % (names, f, exc))
        probes |= m.s_assign(names, f)
        for nm in (names if isinstance(names, tuple) else (names,)):
          self.dirty.discard(nm)      # assignment sets the attribute again
        mutating += 1
      elif name == "del":
        nm = NAMES[op[1]]
        box = []
        self._same_outcome(lambda: sd.__delitem__(nm),
                           lambda: box.append(m.s_delete(nm)), "del",
                           "del sd[%r]" % nm)
        for b in box:
          probes |= b
        mutating += 1
      elif name == "delattr":
        nm = NAMES[op[1]]
        had = any(nm == k for k in m.all_keys())
        try:
          delattr(sd, nm)
        except (AttributeError, KeyError):
          pass
        except Exception as exc:
          raise _Mismatch("unexpected-exception", "delattr",
                          "del sd.%s raised %r" % (nm, exc))
        # outcome not fixed by the statement: either both gone or unchanged
        try:
          sd[nm]
          still = True
        except KeyError:
          still = False
        if had and not still:
          probes |= m.s_delete(nm)
          probes.add("delattr-removed-strategy")
        elif still and not had:
          raise _Mismatch("model-mismatch", "delattr",
                          "del sd.%s created an item" % nm)
        mutating += 1
      elif name == "swap":
        if not twin:
          twin.append((self.core.StrategyDict("sim_sd_twin"), StrategyModel(),
                       set()))
        (sd, m, self.dirty), twin[0] = twin[0], (sd, m, self.dirty)
        probes.add("two-instances-alive")
      elif name == "setattr":
        # the user overwrites an attribute by hand: until the name is
        # assigned again nothing is promised about that attribute
        nm = NAMES[op[1]]
        try:
          setattr(sd, nm, ("junk", nm))
        except Exception as exc:
          raise _Mismatch("unexpected-exception", "setattr",
                          "sd.%s = junk raised %r" % (nm, exc))
        self.dirty.add(nm)
        probes.add("attribute-overwritten-by-hand")
      elif name == "call":
        if m.default is not m.NO_DEFAULT and callable(m.default):
          args = tuple(range(op[1]))
          # keyword arguments go to the default as well (also ones named
          # like parameters of the dictionary's own methods)
          kw = {} if op[1] % 2 == 0 else {"name": 1, "key": "k", "self_": 3}
          try:
            got = sd(*args, **kw)
          except Exception as exc:
            raise _Mismatch("unexpected-exception", "call",
                            "sd(*%r, **%r) raised %r" % (args, kw, exc))
          if got != m.default(*args, **kw):
            raise _Mismatch("model-mismatch", "call",
                            "sd(*%r, **%r) = %r, default gives %r"
                            % (args, kw, got, m.default(*args, **kw)))
      events.append("%s %r" % (name, m.canon()))
      res.states.append(stable_hash(m.canon()))
      self._observe_sd(sd, m, name)
      for osd, om, odirty in twin + decoys:
        keep = self.dirty
        self.dirty = odirty
        try:
          self._observe_sd(osd, om, name + " (on the other instance)")
        finally:
          self.dirty = keep
    return mutating

  def _observe_sd(self, sd, m, after):
    for nm in NAMES:
      self._same_outcome(lambda: sd[nm], lambda: m.get(nm), "getitem",
                         "sd[%r] after %s" % (nm, after))
      self._same_outcome(lambda: sd.key2keys(nm), lambda: m.key2keys(nm),
                         "key2keys", "key2keys(%r) after %s" % (nm, after))
      if any(nm == k for k in m.all_keys()) and \
         nm not in getattr(self, "dirty", ()):
        try:
          attr = getattr(sd, nm)
        except AttributeError:
          raise _Mismatch("model-mismatch", "attribute",
                          "sd.%s missing after %s" % (nm, after))
        if not (attr == m.get(nm)):
          raise _Mismatch("model-mismatch", "attribute",
                          "sd.%s = %r, item is %r after %s"
                          % (nm, attr, m.get(nm), after))
    for v in m.values():
      self._same_outcome(lambda: sd.value2keys(v), lambda: m.value2keys(v),
                         "value2keys", "value2keys(%r) after %s" % (v, after))
    if len(sd) != len(m):
      raise _Mismatch("model-mismatch", "len", "len(sd)=%d, model %d after %s"
                      % (len(sd), len(m), after))
    vals = list(sd)
    if not same_multiset(vals, m.values()):
      raise _Mismatch("model-mismatch", "iter", "list(sd)=%r, model %r after "
                      "%s" % (vals, m.values(), after))
    kt = list(sd.keys())
    if not same_multiset(kt, m.key_tuples()):
      raise _Mismatch("model-mismatch", "keys", "sd.keys()=%r, model %r "
                      "after %s" % (kt, m.key_tuples(), after))
    if m.default is not m.NO_DEFAULT:
      try:
        dflt = sd.default
      except AttributeError:
        raise _Mismatch("model-mismatch", "default",
                        "sd.default missing after %s" % after)
      if not (dflt == m.default):
        raise _Mismatch("model-mismatch", "default",
                        "sd.default = %r, model %r after %s"
                        % (dflt, m.default, after))
      if not callable(m.default):
        return
      got = sd(1, 2)
      if got != m.default(1, 2):
        raise _Mismatch("model-mismatch", "call",
                        "sd(1, 2) = %r, default gives %r after %s"
                        % (got, m.default(1, 2), after))


class _Mismatch(Exception):
  def __init__(self, klass, what, detail):
    Exception.__init__(self, detail)
    self.klass, self.what, self.detail = klass, what, detail


PROPERTY = C15
