# -*- coding: utf-8 -*-
"""
C16 part 2 - the mixer / ControlStream with a consumer *thread* (engine A).

The realistic deployment (examples/keyboard.py): a player thread pulls samples
while the main thread calls add() / assigns value.  A transparent logging
iterator between the stream and its consumer stamps [invoke, return] sequence
numbers on every sample; the main thread's calls are stamped likewise.  The
oracle is the existence of a linearization:

  mixer: event i (exact T_i, add window [a_i, b_i]) must start at a sample in
    { max(r, n) : r in nearest(T_i), n_lo <= n <= n_hi }, n_lo = first sample
    whose computation may have seen the add (ret_n > a_i), n_hi = first sample
    that must have seen it (inv_n > b_i); once started it plays all its items
    on consecutive samples; nothing else is ever in the sum; the mixer may end
    only when every event whose add returned before the final computation
    began has been played completely.
  ControlStream: sample n equals a value that was current at some point of
    its window, and the values seen never go back to an older assignment.
"""
from fractions import Fraction

from .. import audio, backend, threads
from ..kernel import (RunResult, Violation, stable_hash, digest_events,
                      HarnessError)
from ..models.mixer import TOL, HALF
from .util import drop_candidates

END = "END"


def default_knobs():
  return {"strategy": "random", "sticky_den": 4, "pct_d": 2,
          "pct_horizon": 300, "gap_max": 0, "line_budget": 0, "fair": 64,
          "stall_den": 0, "late_den": 0, "phase2_seeded": 1,
          "hot_line": None, "hot_budget": 0}


def nearest_set(T):
  """ Samples that count as 'nearest' to exact time T (ties: both). """
  lo = T - HALF          # start at the first n with n >= T - 1/2
  n = -(-lo.numerator // lo.denominator)      # ceil
  n = max(n, 0)
  out = {n}
  if abs((n + HALF) - T) < TOL or abs((n - HALF) - T) < TOL:
    out.add(n + 1)
    if n > 0:
      out.add(n - 1)
  # keep only those really within tolerance of being nearest
  return set(k for k in out
             if k >= 0 and (k + HALF >= T - TOL) and
             (k == 0 or (k - 1 + HALF) < T + TOL))


class LogIter(object):
  def __init__(self, inner, sched, rec):
    self.inner, self.sched, self.rec = iter(inner), sched, rec

  def __iter__(self):
    return self

  def __next__(self):
    s = self.sched
    s.yield_point("consume")
    inv = s.stamp()
    try:
      v = next(self.inner)
    except StopIteration:
      self.rec.append((inv, s.stamp(), END))
      raise
    self.rec.append((inv, s.stamp(), v))
    return v

  next = __next__


class YieldingIterable(object):
  """ Event data whose __iter__ is a scheduling point (as for any iterable
  implemented in Python): add() evaluates iter(data) in the middle of its
  own statement, so the consumer may run right there. """

  def __init__(self, values, sched):
    self.values, self.sched = values, sched

  def __iter__(self):
    self.sched.yield_point("data.iter")
    return iter(self.values)


class ThreadsPart(object):
  def __init__(self, prop):
    self.prop = prop

  def setup(self):
    self.lio = audio.install()
    from audiolazy import lazy_stream
    self.ls = lazy_stream
    fix = lambda f: f.replace(".pyc", ".py")
    self.trace_files = (fix(lazy_stream.__file__), fix(self.lio.__file__))
    self.runs_done = 0
    import inspect
    lines = set()
    for fn in (lazy_stream.Streamix.__init__, lazy_stream.Streamix.add,
               lazy_stream.ControlStream.__init__):
      try:
        src, start = inspect.getsourcelines(fn)
      except (OSError, TypeError):
        continue
      for off, text in enumerate(src):
        t = text.strip()
        if t and t[0] not in "#\"'" and not t.startswith("def "):
          lines.add(start + off)
    self.hot_lines = sorted(lines)

  # ---------------------------------------------------------------- workload
  def gen_knobs(self, W):
    k = default_knobs()
    k["strategy"] = W.weighted("strategy", [(3, "random"), (2, "sticky"),
                                            (1, "rtb"), (3, "pct")])
    k["sticky_den"] = W.pick("sticky", [4, 2, 8])
    k["pct_d"] = W.choose("pct_d", 6)
    k["pct_horizon"] = W.pick("pct_h", [100, 300, 1000])
    k["gap_max"] = W.pick("gap", [0, 4, 12, 40])
    k["line_budget"] = W.pick("lbud", [0, 10, 60, 400])
    k["fair"] = W.pick("fair", [64, 8, 32])
    k["stall_den"] = W.pick("stall", [0, 0, 10, 4])
    # "slow node": the consumer thread stops being schedulable for a while
    k["tstall_den"] = W.pick("tstall", [0, 0, 0, 20, 6])
    if self.hot_lines and W.chance("hot", 1, 3):
      k["hot_line"] = W.pick("hotline", self.hot_lines)
      k["hot_budget"] = W.pick("hotbudget", [1, 3, 8])
    if k["gap_max"] and k["line_budget"] and W.chance("opcodes", 1, 3):
      # instruction granularity: a switch may land inside a source line
      k["opcodes"] = 1
      k["gap_max"] *= W.pick("opgap", [1, 3, 8])
    return k

  def gen_workload(self, W, part):
    knobs = self.gen_knobs(W)
    consumer = W.weighted("consumer", [(2, "plain"), (1, "audio")])
    nsamples = W.pick("nsamples", [8, 16, 30])
    script = []
    if part == "mix-thread":
      keep = bool(W.weighted("keep", [(3, 1), (2, 0)]))
      pre = W.choose("pre", 3)          # events added before playback
      nev = W.span("nev", 1, 6)
      for i in range(nev):
        d = W.pick("delta", [0, 1, 2, 0.5, 1.5, 0.25, 3, 2.75, 0.1, 5])
        ln = W.weighted("len", [(1, 0), (2, 1), (3, 3), (2, 5)])
        script.append(["add", d, ln, W.weighted("box", [(3, "list"),
                                                        (3, "yielding"),
                                                        (1, "stream"),
                                                        (1, "gen"),
                                                        (1, "hub1"),
                                                        (1, "tuple")])])
        if i >= pre and W.chance("idle", 2, 3):
          script.append(["idle", W.pick("idlek", [1, 3, 10, 30])])
        if consumer == "audio" and W.chance("pausing", 1, 4):
          script.append([W.pick("pr", ["pause", "resume", "pause"])])
          if W.chance("idle2", 1, 2):
            script.append(["idle", W.pick("idlek", [1, 3, 10])])
      return {"part": part, "keep": keep, "pre": min(pre, nev),
              "consumer": consumer, "nsamples": nsamples, "script": script,
              "chunk": W.pick("chunk", [1, 2, 4]), "knobs": knobs}
    mode = W.weighted("mode", [(2, "direct"), (2, "add"), (1, "mul")])
    for i in range(W.span("nset", 1, 6)):
      script.append(["set"])
      if W.chance("idle", 2, 3):
        script.append(["idle", W.pick("idlek", [1, 3, 10, 30])])
      if consumer == "audio" and W.chance("pausing", 1, 4):
        script.append([W.pick("pr", ["pause", "resume", "pause"])])
    return {"part": part, "mode": mode, "consumer": consumer,
            "nsamples": nsamples, "script": script,
            "chunk": W.pick("chunk", [1, 2, 4]), "knobs": knobs}

  def shrink_candidates(self, wl):
    for sc in drop_candidates(wl["script"]):
      c = dict(wl)
      c["script"] = sc
      if wl["part"] == "mix-thread":
        c["pre"] = min(wl["pre"], sum(1 for o in sc if o[0] == "add"))
      yield c
    if wl["nsamples"] > 4:
      c = dict(wl)
      c["nsamples"] = wl["nsamples"] // 2
      yield c
    if wl["consumer"] != "plain":
      c = dict(wl)
      c["consumer"] = "plain"
      yield c
    base = default_knobs()
    for key in sorted(base):
      if wl["knobs"].get(key) != base[key]:
        c = dict(wl)
        c["knobs"] = dict(wl["knobs"])
        c["knobs"][key] = base[key]
        yield c

  def corpus(self):
    k1 = dict(default_knobs(), strategy="random", gap_max=4, line_budget=60)
    k2 = dict(default_knobs(), strategy="pct", pct_d=3, pct_horizon=100,
              gap_max=12, line_budget=60)
    out = []
    for kn in (k1, k2):
      for cons in ("plain", "audio"):
        out.append({"part": "mix-thread", "keep": True, "pre": 1,
                    "consumer": cons, "nsamples": 16, "chunk": 2,
                    "script": [["add", 0, 3, "yielding"], ["idle", 3],
                               ["add", 1.5, 2, "yielding"],
                               ["add", 0, 1, "stream"], ["idle", 10],
                               ["add", 2, 3, "yielding"]],
                    "knobs": kn})
        out.append({"part": "mix-thread", "keep": False, "pre": 2,
                    "consumer": cons, "nsamples": 30, "chunk": 1,
                    "script": [["add", 0, 5], ["add", 2, 5], ["idle", 3],
                               ["add", 0.5, 3], ["idle", 1], ["add", 1, 1]],
                    "knobs": kn})
        out.append({"part": "ctrl-thread", "mode": "add", "consumer": cons,
                    "nsamples": 16, "chunk": 2,
                    "script": [["set"], ["idle", 3], ["set"], ["set"],
                               ["idle", 10], ["set"]], "knobs": kn})
    return out

  # --------------------------------------------------------------------- run
  def run(self, workload, S, want_sample=False):
    lio, ls = self.lio, self.ls
    part = workload["part"]
    knobs = dict(default_knobs())
    knobs.update(workload.get("knobs") or {})
    knobs["step_cap"] = 80000
    res = RunResult()
    sched = threads.Scheduler(S, knobs, self.trace_files)
    sden = knobs.get("stall_den", 0)

    def stall_fn(kind):
      if not sden or not S.chance("stall", 1, sden):
        return 0
      return 1 + S.choose("stall.k", 30)

    world = backend.World(sched, stall_fn)
    backend.set_world(world)
    rec = []            # (inv, ret, value) per sample, from the LogIter
    calls = []          # (a, b, what) per main-thread call
    box = {}
    N = workload["nsamples"]

    def start_consumer(stream):
      log = LogIter(stream, sched, rec)
      if workload["consumer"] == "audio":
        aio = lio.AudioIO(True)
        box["aio"] = aio
        box["player"] = aio.play(ls.Stream(log).limit(N),
                                 chunk_size=workload["chunk"], dfmt="i")
        return None

      def body():
        for _ in range(N):
          try:
            next(log)
          except StopIteration:
            break
      return sched.spawn("consumer", body)

    def finish(cons):
      if cons is not None:
        sched.join(cons)
      else:
        if box.get("player") is not None:
          box["player"].play()      # a paused player would never finish
        box["aio"].close()

    def player_control(op):
      # the main thread also pauses / resumes the audio player that consumes
      # the stream (additions and assignments pile up meanwhile)
      th = box.get("player")
      if th is not None:
        (th.pause if op[0] == "pause" else th.play)()
        res.counters["probe.consumer-%sd-during-playback" % op[0]] += 1

    def main_mix():
      mix = ls.Streamix(keep=workload["keep"], zero=0)
      box["mix"] = mix
      adds = [op for op in workload["script"] if op[0] == "add"]
      started = False
      cons = None
      nadd = 0
      for op in workload["script"]:
        if op[0] == "idle":
          if not started:
            continue
          sched.sleep(op[1], "idle")
          continue
        if op[0] in ("pause", "resume"):
          if started:
            player_control(op)
          continue
        if not started and nadd >= workload["pre"]:
          cons = start_consumer(mix)
          started = True
        i = nadd
        nadd += 1
        vals = [(10 ** i) * (j + 1) for j in range(op[2])]
        box_kind = op[3] if len(op) > 3 else "list"
        if box_kind == "yielding":
          vals = YieldingIterable(vals, sched)
        elif box_kind == "stream":
          vals = ls.Stream(vals)
        elif box_kind == "gen":
          vals = (v for v in list(vals))
        elif box_kind == "hub1":
          vals = ls.thub(list(vals), 1)
        elif box_kind == "tuple":
          vals = tuple(vals)
        a = sched.stamp()
        mix.add(op[1], vals)
        b = sched.stamp()
        calls.append((a, b, i))
      if not started:
        cons = start_consumer(mix)
      finish(cons)

    def main_ctrl():
      cs = ls.ControlStream(7)
      mode = workload["mode"]
      if mode == "direct":
        out = cs
      elif mode == "add":
        out = ls.Stream(1000) + cs
      else:
        out = cs * ls.Stream(2)
      cons = start_consumer(out)
      v = 7
      for op in workload["script"]:
        if op[0] == "idle":
          sched.sleep(op[1], "idle")
          continue
        if op[0] in ("pause", "resume"):
          player_control(op)
          continue
        v += 13
        a = sched.stamp()
        cs.value = v
        b = sched.stamp()
        calls.append((a, b, v))
      finish(cons)

    violation = None
    try:
      try:
        sched.run(main_mix if part == "mix-thread" else main_ctrl)
      finally:
        backend.set_world(None)
        if box.get("aio") is not None:
          box["aio"].finished = True
    except threads.SimFailure as sf:
      violation = sf.violation
    except HarnessError:
      raise
    except Exception as exc:
      import traceback
      violation = Violation("call-raised", type(exc).__name__,
                            traceback.format_exc()[-1500:])
    if violation is None:
      for t in sched.threads:
        if t.crashed is not None:
          violation = Violation("consumer-crashed", type(t.crashed).__name__,
                                "%s: %r" % (t.role, t.crashed))
    if violation is None and not sched.budget_exhausted:
      if part == "mix-thread":
        violation = self.judge_mix(workload, rec, calls, res)
      else:
        violation = self.judge_ctrl(workload, rec, calls, res)
    res.violation = violation
    self.runs_done += 1
    if self.runs_done % 200 == 0:
      import gc
      gc.collect()
    for k, v in sched.counters.items():
      res.counters[k] += v
    res.counters["runs." + part] += 1
    res.counters["consumer." + workload["consumer"]] += 1
    res.counters["context-switches"] += sched.switches
    res.counters["preemptions"] += sched.preemptions
    res.counters["sim-time-units"] += sched.steps
    res.steps = sched.work
    res.digest = digest_events(sched.events + ["%r" % (r,) for r in rec])
    if sched.switches >= 2 and calls:
      res.nontrivial_key = stable_hash((tuple(sched.interleaving),
                                        tuple(r[2] for r in rec)))
    if want_sample:
      res.sample = {"part": part, "script": workload["script"],
                    "consumer": workload["consumer"],
                    "samples": [r[2] for r in rec][:40],
                    "sample_windows": [[r[0], r[1]] for r in rec][:40],
                    "call_windows": [list(c) for c in calls],
                    "schedule_tail": sched.events[-20:]}
    return res

  # ------------------------------------------------------------------ oracle
  def judge_ctrl(self, wl, rec, calls, res):
    mode = wl["mode"]
    vals = [7] + [c[2] for c in calls]          # value j current after call j
    a = [0] + [c[0] for c in calls]
    b = [0] + [c[1] for c in calls]
    last_j = 0
    for n, (inv, ret, out) in enumerate(rec):
      if out == END:
        return Violation("window", "ctrl:ended", "control stream ended")
      v = out if mode == "direct" else out - 1000 if mode == "add" \
        else Fraction(out, 2)
      ok = [j for j in range(len(vals))
            if vals[j] == v and a[j] <= ret and
            (j + 1 >= len(vals) or b[j + 1] >= inv)]
      if not ok:
        return Violation("window", "ctrl:stale-or-future-value",
                         "sample %d = %r (window %d..%d) is not a value "
                         "current during its window; assignments %r"
                         % (n, out, inv, ret, list(zip(a, b, vals))))
      j = ok[0]
      if j < last_j:
        return Violation("window", "ctrl:went-back",
                         "sample %d shows assignment %d after assignment %d"
                         % (n, j, last_j))
      if j != last_j:
        res.counters["probe.assignment-observed-mid-stream"] += 1
      if any(inv < b[jj] and a[jj] < ret for jj in range(1, len(vals))):
        res.counters["probe.assignment-inside-a-sample-window"] += 1
      last_j = j
    return None

  def judge_mix(self, wl, rec, calls, res):
    adds = [op for op in wl["script"] if op[0] == "add"]
    nev = len(adds)
    T = Fraction(0)
    Ts = []
    for op in adds:
      T += Fraction(op[1])
      Ts.append(T)
    outs = [r for r in rec if r[2] != END]
    ended = [r for r in rec if r[2] == END]
    # decode digit i of every output = 1-based item index of event i
    plays = dict((i, []) for i in range(nev))     # i -> [(n, item)]
    for n, (inv, ret, out) in enumerate(outs):
      if not isinstance(out, int) or out < 0:
        return Violation("window", "mix:not-a-sum", "sample %d = %r"
                         % (n, out))
      x, i = out, 0
      while x:
        x, dgt = divmod(x, 10)
        if dgt:
          if i >= nev:
            return Violation("window", "mix:not-a-sum", "sample %d = %r"
                             % (n, out))
          plays[i].append((n, dgt))
        i += 1
    callwin = dict((i, (a, b)) for a, b, i in calls)
    for i in range(nev):
      ln = adds[i][2]
      pl = plays[i]
      if i not in callwin:
        continue
      a, b = callwin[i]
      n_lo = next((n for n, r in enumerate(outs) if r[1] > a), None)
      n_hi = next((n for n, r in enumerate(outs) if r[0] > b), None)
      nearest = nearest_set(Ts[i])
      if ln == 0:
        if pl:
          return Violation("window", "mix:empty-event-played", "event %d"
                           % i)
        continue
      if not pl:
        # never started: legal only if it did not have to start in time
        must = None if n_hi is None else max(max(nearest), n_hi)
        if must is not None and must < len(outs) and not ended:
          return Violation("window", "mix:event-lost",
                           "event %d (T=%s, add window %d..%d) had to start "
                           "by sample %d, %d samples were produced"
                           % (i, Ts[i], a, b, must, len(outs)))
        if ended and b < ended[0][0]:
          return Violation("window", "mix:ended-with-event-pending",
                           "the mixer ended (window %d..%d) although the add "
                           "of event %d returned at %d"
                           % (ended[0][0], ended[0][1], i, b))
        continue
      start = pl[0][0]
      lo_ok = [max(r, n_lo if n_lo is not None else 10 ** 9)
               for r in nearest]
      hi_ok = [max(r, n_hi if n_hi is not None else 10 ** 9)
               for r in nearest]
      if not (min(lo_ok) <= start <= max(hi_ok)):
        what = "mix:started-early" if start < min(lo_ok) else \
          "mix:started-late"
        return Violation("window", what,
                         "event %d (T=%s nearest %r, add window %d..%d, "
                         "n_lo=%r n_hi=%r) started at sample %d"
                         % (i, Ts[i], sorted(nearest), a, b, n_lo, n_hi,
                            start))
      if start > max(nearest):
        res.counters["probe.event-started-late-under-threads"] += 1
      # consecutive, complete, in order
      for k, (n, item) in enumerate(pl):
        if n != start + k or item != k + 1:
          return Violation("window", "mix:items-out-of-sequence",
                           "event %d plays %r from sample %d" % (i, pl,
                                                                 start))
      if len(pl) > ln:
        return Violation("window", "mix:items-out-of-sequence",
                         "event %d played %d of %d items" % (i, len(pl), ln))
      if len(pl) < ln and start + ln <= len(outs):
        return Violation("window", "mix:event-cut-short",
                         "event %d played %d of %d items" % (i, len(pl), ln))
      if len(pl) < ln and ended:
        return Violation("window", "mix:ended-while-playing",
                         "event %d played %d of %d items when the mixer "
                         "ended" % (i, len(pl), ln))
    if ended and wl["keep"]:
      return Violation("window", "mix:keep-ended", "keep=True mixer ended "
                       "after %d samples" % len(outs))
    if not ended and not wl["keep"] and len(outs) < wl["nsamples"]:
      return Violation("window", "mix:short", "consumer got %d samples and "
                       "no end" % len(outs))
    if ended:
      res.counters["probe.mixer-ended-under-threads"] += 1
      # may end only if every event whose add returned before the final
      # computation began was played completely (checked above) and nothing
      # that had to be seen is pending
      inv_end = ended[0][0]
      for i in range(nev):
        if i in callwin and callwin[i][1] < inv_end and adds[i][2] > 0 \
           and len(plays[i]) < adds[i][2]:
          return Violation("window", "mix:ended-with-event-pending",
                           "mixer ended at %d, event %d (add returned %d) "
                           "played %d of %d" % (inv_end, i, callwin[i][1],
                                                len(plays[i]), adds[i][2]))
    return None
