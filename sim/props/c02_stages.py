# -*- coding: utf-8 -*-
"""
Stage registry for C02: for every public stage family the real constructor
and the minimal-read reference generator (see models/lazy_need.py and the
table in DESIGN.md section 4/C02).

Entry: name -> dict(
  cons = type consumed ("num" | "blk"), prod = type produced,
  exact = True when the model reproduces the real values (selectors need an
          exact upstream), sel = True for data-dependent selectors,
  extra = kinds of additional simulator-owned sources ("num"|"param"|"sel"),
  params(W) -> JSON-able parameters,
  real(P, ins, p) -> real stage output, model(ins, p) -> reference generator)
"""
import operator
from fractions import Fraction

from ..models import lazy_need as M

STAGES = {}
ORDER = []


def stage(name, cons="num", prod="num", exact=False, sel=False, extra=(),
          params=None, weight=2):
  def deco(pair):
    real, model = pair
    STAGES[name] = dict(name=name, cons=cons, prod=prod, exact=exact, sel=sel,
                        extra=extra if isinstance(extra, str) else tuple(extra), params=params or (lambda W: {}),
                        real=real, model=model, weight=weight)
    ORDER.append(name)
    return pair
  return deco


def S(P, x):
  return x if isinstance(x, P.ls.Stream) else P.ls.Stream(x)


def no_params(W):
  return {}


# predicates / functions shared by real and model (exact stages)
def f_plus1(v):
  return v + 1


def pred_of(p):
  kind, t = p["pred"], p["t"]
  if kind == "even":
    return lambda v: v % 2 == 0
  if kind == "not3":
    return lambda v: v % 3 != 0
  if kind == "lt":
    return lambda v: (v % 1000) < t
  return lambda v: (v % 1000) >= t


def pred_params(W):
  return {"pred": W.pick("pred", ["even", "not3", "lt", "ge"]),
          "t": W.choose("t", 9)}


def key_of(p):
  g = p["g"]
  return lambda v: (v % 1000) // g


# ------------------------------------------------------- Stream operators
stage("neg", exact=True)((lambda P, i, p: -S(P, i[0]),
                          lambda i, p: M.m_each(i, operator.neg)))
stage("pos", exact=True)((lambda P, i, p: +S(P, i[0]),
                          lambda i, p: M.m_each(i, operator.pos)))
stage("add_c", exact=True)((lambda P, i, p: S(P, i[0]) + 3,
                            lambda i, p: M.m_each(i, lambda v: v + 3)))
stage("rsub_c", exact=True)((lambda P, i, p: 50000 - S(P, i[0]),
                             lambda i, p: M.m_each(i, lambda v: 50000 - v)))
stage("mul_c", exact=True)((lambda P, i, p: S(P, i[0]) * 2,
                            lambda i, p: M.m_each(i, lambda v: v * 2)))
stage("rmul_c", exact=True)((lambda P, i, p: 3 * S(P, i[0]),
                             lambda i, p: M.m_each(i, lambda v: 3 * v)))
stage("pow2")((lambda P, i, p: S(P, i[0]) ** 2, lambda i, p: M.m_each(i)))
stage("truediv_c")((lambda P, i, p: S(P, i[0]) / 4,
                    lambda i, p: M.m_each(i)))
stage("floordiv_c", exact=True)((lambda P, i, p: S(P, i[0]) // 2,
                                 lambda i, p: M.m_each(i, lambda v: v // 2)))
stage("mod_c", exact=True)((lambda P, i, p: S(P, i[0]) % 7,
                            lambda i, p: M.m_each(i, lambda v: v % 7)))
stage("cmp_lt")((lambda P, i, p: S(P, i[0]) < 2500,
                 lambda i, p: M.m_each(i)))
stage("cmp_eq")((lambda P, i, p: S(P, i[0]) == 1003,
                 lambda i, p: M.m_each(i)))
stage("abs", exact=True)((lambda P, i, p: abs(S(P, i[0])),
                          lambda i, p: M.m_each(i, abs)))
stage("map", exact=True)((lambda P, i, p: S(P, i[0]).map(f_plus1),
                          lambda i, p: M.m_each(i, f_plus1)))
stage("getattr_real", exact=True)((lambda P, i, p: S(P, i[0]).real,
                                   lambda i, p: M.m_each(i, lambda v: v)))
stage("call_conjugate", exact=True)(
  (lambda P, i, p: S(P, i[0]).conjugate(),
   lambda i, p: M.m_each(i, lambda v: v)))
stage("stream_of_stream", exact=True)(
  (lambda P, i, p: P.ls.Stream(S(P, i[0])),
   lambda i, p: M.m_each(i, lambda v: v)))
stage("add_ss", extra=("num",))(
  (lambda P, i, p: S(P, i[0]) + S(P, i[1]), lambda i, p: M.m_lockstep(i)))
stage("mul_s_raw", extra=("num",))(
  (lambda P, i, p: S(P, i[0]) * i[1], lambda i, p: M.m_lockstep(i)))
stage("rsub_raw_s", extra=("num",))(
  (lambda P, i, p: S(P, i[0]).__rsub__(i[1]),
   lambda i, p: M.m_lockstep(i)))
# every operator method the metaclass builds (plain and reflected, with a
# constant and with a second simulator-owned source): a fast path for one
# particular operator must stay lazy as well
ANY_OPS = ["add", "sub", "mul", "truediv", "floordiv", "mod", "pow", "and_",
           "or_", "xor", "lshift", "rshift", "lt", "le", "eq", "ne", "gt",
           "ge"]
ANY_UNOPS = ["neg", "pos", "invert", "abs"]


def _binop_params(W, two_streams=False):
  # (two tagged streams: no pow / lshift, whose results grow without bound
  # along a chain and would only measure big-number arithmetic)
  op = W.pick("anyop", [o for o in ANY_OPS
                        if not (two_streams and o in ("pow", "lshift"))])
  refl = bool(W.choose("reflected", 2)) and op not in (
    "pow", "lshift", "lt", "le", "eq", "ne", "gt", "ge")
  return {"op": op, "refl": refl}


def _binop(p, c=None):
  f = getattr(operator, p["op"])
  if c is None:
    return (lambda a, b: f(b, a)) if p["refl"] else f
  return (lambda v: f(c, v)) if p["refl"] else (lambda v: f(v, c))


def _const_of(p):
  return {"pow": 2, "lshift": 1, "rshift": 1}.get(p["op"], 1003)


stage("anyop_const", params=_binop_params, weight=3)(
  (lambda P, i, p: _binop(p, _const_of(p))(S(P, i[0])),
   lambda i, p: M.m_each(i)))
stage("anyop_streams", extra=("num",),
      params=lambda W: _binop_params(W, True), weight=3)(
  (lambda P, i, p: _binop(dict(p, refl=False))(S(P, i[0]), S(P, i[1])),
   lambda i, p: M.m_lockstep(i)))
stage("anyop_raw_operand", extra=("num",),
      params=lambda W: _binop_params(W, True), weight=2)(
  (lambda P, i, p: _binop(p)(S(P, i[0]), i[1]),
   lambda i, p: M.m_lockstep(i)))
stage("anyop_unary", params=lambda W: {"op": W.pick("unop", ANY_UNOPS)},
      weight=2)(
  (lambda P, i, p: getattr(operator, p["op"])(S(P, i[0])),
   lambda i, p: M.m_each(i)))
# fixed (non-source) operands are long: a stage that runs out because of them
# is element-wise semantics (C01), and polling it again is Python's business
stage("add_list", params=lambda W: {"n": 500 + W.choose("n", 6)})(
  (lambda P, i, p: S(P, i[0]) + list(range(p["n"])),
   lambda i, p: M.m_lockstep_fixed(i, p["n"])))
stage("radd_list", params=lambda W: {"n": 500 + W.choose("n", 6)})(
  (lambda P, i, p: list(range(p["n"])) + S(P, i[0]),
   lambda i, p: M.m_lockstep_fixed(i, p["n"])))
stage("mul_gen", params=lambda W: {"n": 500 + W.choose("n", 6)})(
  (lambda P, i, p: S(P, i[0]) * (g for g in range(p["n"])),
   lambda i, p: M.m_lockstep_fixed(i, p["n"])))
stage("limit", exact=True, params=lambda W: {"n": W.choose("n", 9)})(
  (lambda P, i, p: S(P, i[0]).limit(p["n"]),
   lambda i, p: M.m_limit(i, p["n"])))
stage("skip", exact=True, params=lambda W: {"n": W.choose("n", 6)})(
  (lambda P, i, p: S(P, i[0]).skip(p["n"]),
   lambda i, p: M.m_skip(i, p["n"])))
stage("append", exact=True, extra=("num",))(
  (lambda P, i, p: S(P, i[0]).append(i[1]), lambda i, p: M.m_chain(i)))
stage("stream_chain", exact=True, extra=("num",))(
  (lambda P, i, p: P.ls.Stream(i[0], i[1]), lambda i, p: M.m_chain(i)))
stage("filter", exact=True, sel=True, params=pred_params)(
  (lambda P, i, p: S(P, i[0]).filter(pred_of(p)),
   lambda i, p: M.m_filter(i, pred_of(p))))

# ------------------------------------------------------- itertools wrappers
stage("izip", prod="tup", extra=("num",))(
  (lambda P, i, p: P.lit.izip(i[0], i[1]), lambda i, p: M.m_lockstep(i)))
stage("izip3", prod="tup", extra=("num", "num"))(
  (lambda P, i, p: P.lit.izip.smallest(i[0], i[1], i[2]),
   lambda i, p: M.m_lockstep(i)))
stage("izip_longest", prod="tup", extra=("num",))(
  (lambda P, i, p: P.lit.izip.longest(i[0], i[1]),
   lambda i, p: M.m_longest(i)))
stage("imap", exact=True)((lambda P, i, p: P.lit.imap(f_plus1, i[0]),
                           lambda i, p: M.m_each(i, f_plus1)))
stage("imap2", extra=("num",))(
  (lambda P, i, p: P.lit.imap(operator.add, i[0], i[1]),
   lambda i, p: M.m_lockstep(i)))
stage("starmap", extra=("num",))(
  (lambda P, i, p: P.lit.starmap(operator.add, P.lit.izip(i[0], i[1])),
   lambda i, p: M.m_lockstep(i)))
stage("accumulate_it")((lambda P, i, p: P.lit.accumulate(i[0]),
                        lambda i, p: M.m_each(i)))
stage("accumulate_func")((lambda P, i, p: P.lit.accumulate.func(i[0]),
                          lambda i, p: M.m_each(i)))
stage("accumulate_z")((lambda P, i, p: P.lit.accumulate.z(i[0]),
                       lambda i, p: M.m_each(i)))
stage("takewhile", exact=True, sel=True,
      params=lambda W: {"pred": "lt", "t": W.choose("t", 9)})(
  (lambda P, i, p: P.lit.takewhile(pred_of(p), i[0]),
   lambda i, p: M.m_takewhile(i, pred_of(p))))
stage("dropwhile", exact=True, sel=True,
      params=lambda W: {"pred": "lt", "t": W.choose("t", 9)})(
  (lambda P, i, p: P.lit.dropwhile(pred_of(p), i[0]),
   lambda i, p: M.m_dropwhile(i, pred_of(p))))
stage("ifilter", exact=True, sel=True, params=pred_params)(
  (lambda P, i, p: P.lit.ifilter(pred_of(p), i[0]),
   lambda i, p: M.m_filter(i, pred_of(p))))
stage("ifilterfalse", exact=True, sel=True, params=pred_params)(
  (lambda P, i, p: P.lit.ifilterfalse(pred_of(p), i[0]),
   lambda i, p: M.m_filter(i, lambda v, f=pred_of(p): not f(v))))
stage("compress", exact=True, extra=("sel",))(
  (lambda P, i, p: P.lit.compress(i[0], i[1]),
   lambda i, p: M.m_compress(i)))
stage("groupby", prod="tup", sel=True,
      params=lambda W: {"g": W.span("g", 1, 4)})(
  (lambda P, i, p: P.lit.groupby(i[0], key_of(p)),
   lambda i, p: M.m_groupby(i, key_of(p))))
stage("islice", exact=True, sel=True,
      params=lambda W: {"start": W.choose("start", 4),
                        "stop": W.pick("stop", [None, 3, 6, 9, 12]),
                        "step": W.span("step", 1, 3)})(
  (lambda P, i, p: P.lit.islice(i[0], p["start"], p["stop"], p["step"]),
   lambda i, p: M.m_islice(i, p["start"], p["stop"], p["step"])))
stage("chain", exact=True, extra=("num",))(
  (lambda P, i, p: P.lit.chain(i[0], i[1]), lambda i, p: M.m_chain(i)))
stage("chain_star", exact=True, extra=("num",))(
  (lambda P, i, p: P.lit.chain.star([i[0], i[1]]),
   lambda i, p: M.m_chain(i)))
stage("cycle", exact=True)((lambda P, i, p: P.lit.cycle(i[0]),
                            lambda i, p: M.m_cycle(i)))
stage("pairwise", prod="tup")((lambda P, i, p: P.lit.pairwise(i[0]),
                               lambda i, p: M.m_pairwise(i)))
stage("batched", prod="tup", params=lambda W: {"n": W.span("n", 1, 4)})(
  (lambda P, i, p: P.lit.batched(i[0], p["n"]),
   lambda i, p: M.m_batched(i, p["n"])))


# ------------------------------------------------------------------- filters
def filt_params(W):
  return {"f": W.pick("filt", ["fir", "iir", "delay", "zero", "gain", "fir5",
                               "iir2", "linearized"])}


def make_filter(P, name):
  z = P.lf.z
  if name == "fir":
    return 1 + 2 * z ** -1 - z ** -2
  if name == "fir5":
    return sum((k + 1) * z ** -k for k in range(5))
  if name == "iir":
    return (1 + z ** -1) / (1 - .5 * z ** -1)
  if name == "iir2":
    return 1 / (1 - .3 * z ** -1 + .2 * z ** -2)
  if name == "delay":
    return z ** -2
  if name == "zero":
    return P.lf.ZFilter(0)
  if name == "linearized":
    return (1 - z ** -3).linearize()
  return P.lf.ZFilter(2.5)


stage("zfilter", params=filt_params, weight=4)(
  (lambda P, i, p: make_filter(P, p["f"])(i[0]),
   lambda i, p: M.m_each(i)))
stage("zfilter_memory", params=filt_params)(
  (lambda P, i, p: make_filter(P, p["f"])(i[0], memory=[1., 2.], zero=0),
   lambda i, p: M.m_each(i)))
stage("cascade", params=lambda W: {"n": W.choose("n", 4)})(
  (lambda P, i, p: P.lf.CascadeFilter(
    [make_filter(P, nm) for nm in ["iir", "fir", "delay"][:p["n"]]])(i[0]),
   lambda i, p: M.m_each(i)))
stage("parallel", params=lambda W: {"n": W.choose("n", 4)}, weight=4)(
  (lambda P, i, p: P.lf.ParallelFilter(
    [make_filter(P, nm) for nm in ["iir", "fir", "delay"][:p["n"]]])(i[0]),
   lambda i, p: M.m_each(i)))
stage("comb", params=lambda W: {"k": W.pick("k", ["fb", "tau", "ff"]),
                                "d": W.span("d", 1, 4)})(
  (lambda P, i, p: P.lf.comb[p["k"]](p["d"], .5 if p["k"] != "tau"
                                     else 20.)(i[0]),
   lambda i, p: M.m_each(i)))
# long delays (comb-like filters with the nearest tap 16..40 samples away):
# still one input item per output item
stage("long_delay_filter", params=lambda W: {
  "k": W.pick("k", ["delay", "fb", "ff", "tau", "fir2"]),
  "d": W.pick("d", [16, 17, 24, 33, 40])})(
  (lambda P, i, p: (P.lf.z ** -p["d"] if p["k"] == "delay" else
                    1 + .5 * P.lf.z ** -p["d"] + .25 * P.lf.z ** -(p["d"] + 3)
                    if p["k"] == "fir2" else
                    P.lf.comb[p["k"]](p["d"], .5 if p["k"] != "tau"
                                      else 200.))(i[0]),
   lambda i, p: M.m_each(i)))
stage("resonator", params=lambda W: {"k": W.pick("k", [
  "poles_exp", "freq_poles_exp", "z_exp", "freq_z_exp"])})(
  (lambda P, i, p: P.lf.resonator[p["k"]](.4, .05)(i[0]),
   lambda i, p: M.m_each(i)))
stage("lowhigh", params=lambda W: {"w": W.pick("w", ["lowpass", "highpass"]),
                                   "k": W.pick("k", ["pole", "z", "pole_exp",
                                                     "z_exp"])})(
  (lambda P, i, p: getattr(P.lf, p["w"])[p["k"]](.3)(i[0]),
   lambda i, p: M.m_each(i)))
stage("lowhigh_stream_cutoff", extra=("param",),
      params=lambda W: {"w": W.pick("w", ["lowpass", "highpass"]),
                        "k": W.pick("k", ["pole", "z", "pole_exp",
                                          "z_exp"])})(
  (lambda P, i, p: getattr(P.lf, p["w"])[p["k"]](S(P, i[1]))(i[0]),
   lambda i, p: M.m_lockstep(i)))
stage("resonator_stream", extra=("param",),
      params=lambda W: {"k": W.pick("k", ["poles_exp", "z_exp",
                                          "freq_poles_exp", "freq_z_exp"])})(
  (lambda P, i, p: P.lf.resonator[p["k"]](S(P, i[1]), .05)(i[0]),
   lambda i, p: M.m_lockstep(i)))
stage("tv_fir", extra=("param",))(
  (lambda P, i, p: (S(P, i[1]) * P.lf.z ** -1 + 1)(i[0]),
   lambda i, p: M.m_lockstep(i)))
stage("tv_iir", extra=("param", "param"))(
  (lambda P, i, p: (S(P, i[1]) / (1 - S(P, i[2]) * P.lf.z ** -1))(i[0]),
   lambda i, p: M.m_lockstep(i)))
# sums and differences of a time-varying IIR filter and an FIR filter / a
# constant (the complementary filter 1 - lowpass(cutoff stream) and the like)
stage("tv_iir_pm_fir", extra=("param",),
      params=lambda W: {"how": W.pick("tvsum", ["f+c", "c-f", "f-fir",
                                                 "fir+f", "1-lowpass"])})(
  (lambda P, i, p: {
     "f+c": lambda f, z: f + 2,
     "c-f": lambda f, z: 1 - f,
     "f-fir": lambda f, z: f - (1 + .5 * z ** -1),
     "fir+f": lambda f, z: (2 + z ** -2) + f,
     "1-lowpass": lambda f, z: 1 - P.lf.lowpass(S(P, i[1])),
   }[p["how"]]((.5 / (1 - S(P, i[1]) * P.lf.z ** -1))
               if p["how"] != "1-lowpass" else None, P.lf.z)(i[0]),
   lambda i, p: M.m_lockstep(i)))
stage("tv_fractional_delay", extra=("param",),
      params=lambda W: {"d": W.pick("fd", [1.5, 0.25, 2.75])})(
  (lambda P, i, p: (S(P, i[1]) * P.lf.z ** -p["d"] + 1).linearize()(i[0]),
   lambda i, p: M.m_lockstep(i)))
stage("tv_gain_a0", extra=("param",))(
  (lambda P, i, p: P.lf.ZFilter([1, 1], [S(P, i[1]), .5])(i[0]),
   lambda i, p: M.m_lockstep(i)))
stage("tv_product", extra=("param", "param"))(
  (lambda P, i, p: ((S(P, i[1]) + P.lf.z ** -1) *
                    (1 + S(P, i[2]) * P.lf.z ** -2))(i[0]),
   lambda i, p: M.m_lockstep(i)))
stage("gammatone", params=lambda W: {"k": W.pick("k", ["klapuri", "slaney",
                                                       "sampled"])})(
  (lambda P, i, p: P.lau.gammatone[p["k"]](.5, .1)(i[0]),
   lambda i, p: M.m_each(i)))

# ---------------------------------------------------------- analysis tools
stage("maverage", params=lambda W: {"k": W.pick("k", ["deque", "recursive",
                                                      "fir"]),
                                    "n": W.pick("n", [1, 2, 3, 4, 5, 16,
                                                      33])})(
  (lambda P, i, p: P.la.maverage[p["k"]](p["n"])(i[0]),
   lambda i, p: M.m_each(i)))
stage("envelope", params=lambda W: {"k": W.pick("k", ["rms", "abs",
                                                      "squared"])})(
  (lambda P, i, p: P.la.envelope[p["k"]](i[0], cutoff=.2),
   lambda i, p: M.m_each(i)))
stage("amdf", params=lambda W: {"lag": W.pick("lag", [1, 2, 3, 4, 8, 9, 16,
                                                      20]),
                                "n": W.pick("n", [1, 2, 3, 4, 8, 12])})(
  (lambda P, i, p: P.la.amdf(p["lag"], p["n"])(i[0]),
   lambda i, p: M.m_each(i)))
stage("clip", params=lambda W: {"k": W.choose("k", 4)})(
  (lambda P, i, p: P.la.clip(i[0], *[(1000, 3000), (None, 2000),
                                     (1500, None), (None, None)][p["k"]]),
   lambda i, p: M.m_each(i)))
stage("zcross", params=lambda W: {"h": W.choose("h", 3),
                                  "s": W.pick("s", [0, 1, -1])})(
  (lambda P, i, p: P.la.zcross(i[0], hysteresis=p["h"], first_sign=p["s"]),
   lambda i, p: M.m_each(i)))
stage("unwrap")((lambda P, i, p: P.la.unwrap(i[0]),
                 lambda i, p: M.m_each(i)))
stage("zero_pad", exact=True, params=lambda W: {"l": W.choose("l", 4),
                                                "r": W.choose("r", 3)})(
  (lambda P, i, p: P.lm.zero_pad(i[0], p["l"], p["r"], zero=0),
   lambda i, p: M.m_zero_pad(i, p["l"], p["r"])))
stage("elementwise_math")((lambda P, i, p: P.lmath.sqrt(S(P, i[0])),
                           lambda i, p: M.m_each(i)))
stage("elementwise_gen")(
  (lambda P, i, p: P.lmath.dB20((v for v in i[0])),
   lambda i, p: M.m_each(i)))


# ---------------------------------------------------------------- blockenizer
def blk_params(W):
  size = W.span("size", 1, 6)
  hop = W.weighted("hopkind", [(3, "lt"), (2, "eq"), (2, "gt"), (1, "none")])
  if hop == "lt":
    h = 1 + W.choose("hop", size) if size > 1 else 1
    h = min(h, size)
  elif hop == "eq":
    h = size
  elif hop == "gt":
    h = size + 1 + W.choose("hop", 3)
  else:
    h = None
  return {"size": size, "hop": h}


def hop_of(p):
  return p["size"] if p["hop"] is None else p["hop"]


stage("blocks", prod="blk", params=blk_params, weight=5)(
  (lambda P, i, p: P.lm.blocks(i[0], size=p["size"], hop=p["hop"]),
   lambda i, p: M.m_blocks(i, p["size"], hop_of(p))))
stage("stream_blocks", prod="blk", params=blk_params, weight=3)(
  (lambda P, i, p: S(P, i[0]).blocks(size=p["size"], hop=p["hop"]),
   lambda i, p: M.m_blocks(i, p["size"], hop_of(p))))
stage("chunks_struct", prod="tup", params=lambda W: {"size": W.span("size", 1,
                                                                   5)})(
  (lambda P, i, p: P.lio.chunks.struct((float(v) for v in i[0]),
                                       size=p["size"], dfmt="f"),
   lambda i, p: M.m_blocks(i, p["size"], p["size"])))
stage("blk_map_tuple", cons="blk", prod="blk")(
  (lambda P, i, p: S(P, i[0]).map(tuple), lambda i, p: M.m_each(
    i, lambda b: b)))
stage("blk_map_sum", cons="blk", prod="num")(
  (lambda P, i, p: S(P, i[0]).map(sum), lambda i, p: M.m_each(i)))


def ola_params(W):
  p = blk_params(W)
  if p["hop"] is not None and p["hop"] > p["size"]:
    p["hop"] = p["size"]
  p["wnd"] = W.pick("wnd", [None, "ones", "tri"])
  p["norm"] = bool(W.choose("norm", 2))
  p["auto"] = bool(W.choose("auto", 2))
  return p


def wnd_of(p):
  if p["wnd"] is None:
    return None
  if p["wnd"] == "ones":
    return [1.] * p["size"]
  return [float(k + 1) for k in range(p["size"])]


stage("overlap_add", params=ola_params, weight=5)(
  (lambda P, i, p: P.la.overlap_add.list(
    P.lm.blocks(i[0], size=p["size"], hop=p["hop"]),
    size=None if p["auto"] else p["size"], hop=p["hop"], wnd=wnd_of(p),
    normalize=p["norm"]),
   lambda i, p: M.m_overlap_add([M.m_blocks(i, p["size"], hop_of(p))],
                                p["size"], hop_of(p))))


def stft_real(P, i, p):
  kw = dict(size=p["size"], transform=None, inverse_transform=None,
            before=None, after=None,
            wnd=i[1] if p.get("wnd") == "iter" else wnd_of(p))
  if p["hop"] is not None:
    kw["hop"] = p["hop"]
  if p["ola"]:
    kw["ola"] = P.la.overlap_add.list
  else:
    kw["ola"] = None
  proc = lambda blk: [2 * v for v in blk]
  style = p.get("style", "deco")
  if style == "direct":                  # stft(func, **kw)(sig)
    return P.la.stft(proc, **kw)(i[0])
  if style in ("override", "partial-override"):
    # defaults given when the processor is built, overridden when it is
    # called: what counts is the call-time size (and the hop it implies)
    late = {"size": kw.pop("size")}
    if "hop" in kw:
      late["hop"] = kw.pop("hop")
    kw["size"] = p.get("size0", 2)
    if style == "override":
      return P.la.stft(proc, **kw)(i[0], **late)
    return P.la.stft(**kw)(proc)(i[0], **late)
  deco = P.la.stft(**kw)
  func = deco(proc)
  return func(i[0])


def _stft_style(W, p):
  p["style"] = W.weighted("stft-style", [(3, "deco"), (1, "direct"),
                                         (2, "override"),
                                         (1, "partial-override")])
  p["size0"] = W.pick("size0", [1, 2, 16])
  return p


def stft_params(W):
  p = ola_params(W)
  p["ola"] = True
  return _stft_style(W, p)


def stft_blk_params(W):
  p = ola_params(W)
  p["ola"] = False
  return _stft_style(W, p)


stage("stft", params=stft_params, weight=4)(
  (stft_real,
   lambda i, p: M.m_overlap_add([M.m_blocks(i, p["size"], hop_of(p))],
                                p["size"], hop_of(p))))
stage("stft_no_ola", prod="blk", params=stft_blk_params, weight=3)(
  (stft_real, lambda i, p: M.m_blocks(i, p["size"], hop_of(p))))


# the window handed over as a one-shot iterable (iterator, generator, Stream):
# a second simulator-owned source of exactly ``size`` items, which may be read
# (completely) when the first output is demanded, not when the stage is built
def wnd_iter_params(W, ola=True):
  p = ola_params(W)
  p["wnd"] = "iter"
  p["auto"] = False
  p["ola"] = ola
  return p


def m_window_then(wnd, inner):
  for v in wnd:          # the whole window, with the first output
    pass
  for v in inner:
    yield v


stage("overlap_add_wnd_iter", extra=("wnd",), params=wnd_iter_params,
      weight=2)(
  (lambda P, i, p: P.la.overlap_add.list(
    P.lm.blocks(i[0], size=p["size"], hop=p["hop"]),
    size=p["size"], hop=p["hop"], wnd=i[1], normalize=p["norm"]),
   lambda i, p: m_window_then(i[1], M.m_overlap_add(
     [M.m_blocks(i[:1], p["size"], hop_of(p))], p["size"], hop_of(p)))))
stage("stft_wnd_iter", extra=("wnd",), params=wnd_iter_params, weight=2)(
  (stft_real,
   lambda i, p: m_window_then(i[1], M.m_overlap_add(
     [M.m_blocks(i[:1], p["size"], hop_of(p))], p["size"], hop_of(p)))))
stage("stft_no_ola_wnd_iter", prod="blk", extra=("wnd",),
      params=lambda W: wnd_iter_params(W, False), weight=1)(
  (stft_real,
   lambda i, p: m_window_then(i[1], M.m_blocks(i[:1], p["size"],
                                               hop_of(p)))))


# ---------------------------------------------------------------------- mixer
def mixer_params(W):
  n = W.span("nev", 0, 2)
  return {"deltas": [W.pick("delta", [0, 1, 2, 3, 0.25, 1.25, 2.75, 4])
                     for _ in range(n + 1)],
          "keep": bool(W.choose("keep", 2))}


def mixer_real(P, i, p):
  mix = P.ls.Streamix(keep=p["keep"], zero=0)
  for d, src in zip(p["deltas"], i):
    mix.add(d, src)
  return mix


def mixer_starts(p):
  T = Fraction(0)
  out = []
  for d in p["deltas"]:
    T += Fraction(d)
    lo = T - Fraction(1, 2)
    out.append(max(0, -(-lo.numerator // lo.denominator)))
  return out


stage("mixer", extra="var-num", params=mixer_params, weight=4)(
  (mixer_real, lambda i, p: M.m_mixer(i, mixer_starts(p), p["keep"])))

# ------------------------------------------------------------------ resampler
stage("resample", params=lambda W: {
  # dyadic ratios only: old/new is then exact in floating point as well
  "old": W.pick("old", [1, 2, 3, 1.5, 5]), "new": W.pick("new", [1, 2, 4, 8]),
  "order": W.span("order", 1, 5)}, weight=4)(
  (lambda P, i, p: P.lp.resample(i[0], old=p["old"], new=p["new"],
                                 order=p["order"]),
   lambda i, p: M.m_resample(i, p["old"], p["new"], p["order"])))


# ---------------------------------------------------- internal fan-out exprs
def _thub_expr(P, i, p):
  x = P.ls.thub(S(P, i[0]), 2)
  return (x - 1) / (x + 1)


def _tee_sum(P, i, p):
  a, b = P.lit.tee(S(P, i[0]), 2)
  return a + b * 2


def _copy_sum(P, i, p):
  s = S(P, i[0])
  return s.copy() - s


def _hub_unary_plus(P, i, p):
  # a hub used through a unary operator AND once more as it is: |x| + x
  x = P.ls.thub(S(P, i[0]), 2)
  return getattr(operator, p["op"])(x) + x


def _hub_attr_expr(P, i, p):
  # attribute / call broadcasting on a 2-use hub: |x|^2 = re^2 + im^2
  if p["how"] == "hubcall":
    # a hub whose items are callables, called element-wise - twice
    f = P.ls.thub(S(P, i[0]).map(lambda v: v.conjugate), 2)
    return f() + f()
  x = P.ls.thub(S(P, i[0]), 3 if p["how"] == "attr" else 2)
  if p["how"] == "attr":
    return x.real * x.real + x.imag
  if p["how"] == "call":
    return x.conjugate() + x
  return x.real + x.conjugate()


def _hub_multiarg(P, i, p):
  # a hub handed to a several-arguments constructor / append() and used once
  # more as it is
  x = P.ls.thub(S(P, i[0]), 2)
  if p["how"] == "first":
    return P.ls.Stream(x, [0, 0, 0]) + x
  if p["how"] == "last":
    return P.ls.Stream([], x) + x
  if p["how"] == "append":
    return P.ls.Stream([]).append(x, [0, 0]) + x
  return x + P.ls.Stream([], x, [0])


stage("thub_expr")((_thub_expr, lambda i, p: M.m_each(i)))
stage("hub_multiarg", params=lambda W: {"how": W.pick("how", [
  "first", "last", "append", "rlast"])})(
  (_hub_multiarg, lambda i, p: M.m_each(i)))
stage("hub_attr_expr", params=lambda W: {"how": W.pick("how", ["attr", "call",
                                                               "both",
                                                               "hubcall"])})(
  (_hub_attr_expr, lambda i, p: M.m_each(i)))
stage("hub_unary_plus", params=lambda W: {"op": W.pick("unop", ANY_UNOPS)})(
  (_hub_unary_plus, lambda i, p: M.m_each(i)))
stage("tee_sum")((_tee_sum, lambda i, p: M.m_each(i)))
stage("copy_sum")((_copy_sum, lambda i, p: M.m_each(i)))
stage("poly_call_stream")(
  (lambda P, i, p: (P.lp.x ** 2 + 2 * P.lp.x + 1)(S(P, i[0])),
   lambda i, p: M.m_each(i)))
stage("poly_call_horner_off")(
  (lambda P, i, p: (P.lp.x ** 3 - P.lp.x + 7)(S(P, i[0]), horner=False),
   lambda i, p: M.m_each(i)))

# ------------------------------------------------- synthesis with Stream input
stage("modcount_start", params=lambda W: {"step": W.pick("step", [1., 0.,
                                                                  300.])})(
  (lambda P, i, p: P.lsy.modulo_counter(i[0], 256., p["step"]),
   lambda i, p: M.m_each(i)))
stage("modcount_step")(
  (lambda P, i, p: P.lsy.modulo_counter(0., 256., i[0]),
   lambda i, p: M.m_each(i)))
stage("modcount_modulo")(
  (lambda P, i, p: P.lsy.modulo_counter(0., i[0], 1.),
   lambda i, p: M.m_each(i)))
stage("modcount_start_step", extra=("num",))(
  (lambda P, i, p: P.lsy.modulo_counter(i[0], 256., i[1]),
   lambda i, p: M.m_lockstep(i)))
stage("modcount_start_modulo", extra=("num",))(
  (lambda P, i, p: P.lsy.modulo_counter(i[0], i[1], 1.),
   lambda i, p: M.m_lockstep(i)))
stage("modcount_modulo_step", extra=("num",))(
  (lambda P, i, p: P.lsy.modulo_counter(0., i[0], i[1]),
   lambda i, p: M.m_lockstep(i)))
stage("modcount_all", extra=("num", "num"))(
  (lambda P, i, p: P.lsy.modulo_counter(i[0], i[1], i[2]),
   lambda i, p: M.m_lockstep(i)))
stage("sinusoid_freq")((lambda P, i, p: P.lsy.sinusoid(i[0]),
                        lambda i, p: M.m_each(i)))
stage("sinusoid_phase")((lambda P, i, p: P.lsy.sinusoid(.1, phase=i[0]),
                         lambda i, p: M.m_each(i)))
stage("table_lookup_freq")((lambda P, i, p: P.lsy.sin_table(S(P, i[0])),
                            lambda i, p: M.m_each(i)))
stage("table_lookup_phase")(
  (lambda P, i, p: P.lsy.saw_table(.05, phase=S(P, i[0])),
   lambda i, p: M.m_each(i)))


# ------------------------------------------ element-wise broadcast functions
stage("midi2freq")((lambda P, i, p: P.lmidi.midi2freq(S(P, i[0]) % 100),
                    lambda i, p: M.m_each(i)))
stage("freq2midi_gen")(
  (lambda P, i, p: P.lmidi.freq2midi((v + 20. for v in i[0])),
   lambda i, p: M.m_each(i)))
stage("midi2str", prod="tup")(
  (lambda P, i, p: P.lmidi.midi2str(S(P, i[0]) % 100),
   lambda i, p: M.m_each(i)))
stage("math_log", prod="tup")(   # complex for negative input: terminal
  (lambda P, i, p: P.lmath.log(S(P, i[0]) + 1, base=2),
   lambda i, p: M.m_each(i)))
stage("math_sign")((lambda P, i, p: P.lmath.sign(S(P, i[0]) - 1500),
                    lambda i, p: M.m_each(i)))
stage("math_dB10")((lambda P, i, p: P.lmath.dB10(S(P, i[0]) + 1),
                    lambda i, p: M.m_each(i)))
stage("math_cexp", prod="tup")(          # complex output: terminal
  (lambda P, i, p: P.lmath.cexp(S(P, i[0]) * 1e-3),
   lambda i, p: M.m_each(i)))
stage("math_floor")((lambda P, i, p: P.lmath.floor(S(P, i[0]) / 3),
                     lambda i, p: M.m_each(i)))
stage("blk_acorr", cons="blk", prod="blk")(
  (lambda P, i, p: S(P, i[0]).map(lambda b: P.la.acorr(list(b))),
   lambda i, p: M.m_each(i, lambda b: b)))
stage("blk_lpc", cons="blk", prod="tup")(
  (lambda P, i, p: S(P, i[0]).map(
    lambda b: P.llpc.lpc.kautocor([float(v % 7) + 1. for v in b], 1)),
   lambda i, p: M.m_each(i)))
stage("blk_window", cons="blk", prod="blk")(
  (lambda P, i, p: S(P, i[0]).map(
    lambda b: [w * v for w, v in zip(P.la.window.hann(len(b)), b)]),
   lambda i, p: M.m_each(i, lambda b: b)))


# --------------------------------------------- StreamTeeHub methods (thub)
def _hub(P, x, n=1):
  return P.ls.thub(S(P, x), n)


stage("hub_skip", exact=True, params=lambda W: {"n": W.choose("n", 6)})(
  (lambda P, i, p: _hub(P, i[0]).skip(p["n"]),
   lambda i, p: M.m_skip(i, p["n"])))
stage("hub_limit", exact=True, params=lambda W: {"n": W.choose("n", 9)})(
  (lambda P, i, p: _hub(P, i[0]).limit(p["n"]),
   lambda i, p: M.m_limit(i, p["n"])))
stage("hub_map", exact=True)(
  (lambda P, i, p: _hub(P, i[0]).map(f_plus1),
   lambda i, p: M.m_each(i, f_plus1)))
stage("hub_filter", exact=True, sel=True, params=pred_params)(
  (lambda P, i, p: _hub(P, i[0]).filter(pred_of(p)),
   lambda i, p: M.m_filter(i, pred_of(p))))
stage("hub_append", exact=True, extra=("num",))(
  (lambda P, i, p: _hub(P, i[0]).append(i[1]), lambda i, p: M.m_chain(i)))
stage("hub_copy", exact=True)(
  (lambda P, i, p: _hub(P, i[0]).copy(),
   lambda i, p: M.m_each(i, lambda v: v)))
stage("hub_two_uses")(
  (lambda P, i, p: (lambda h: P.ls.Stream(h) + P.ls.Stream(h).skip(1))(
    _hub(P, i[0], 2)),
   lambda i, p: M.m_skip([M.m_each(i)], 1)))


stage("attack_sustain", params=lambda W: {"a": W.pick("a", [1, 2, 3.6, 0.4]),
                                          "d": W.pick("d", [1, 2, 2.5])})(
  (lambda P, i, p: P.lsy.attack(p["a"], p["d"], i[0]),
   lambda i, p: M.m_attack(i, int(p["a"] + .5), int(p["d"] + .5))))
stage("attack_sustain_stream", params=lambda W: {"a": W.pick("a", [1, 2]),
                                                 "d": W.pick("d", [1, 3])})(
  (lambda P, i, p: P.lsy.attack(p["a"], p["d"], S(P, i[0])),
   lambda i, p: M.m_attack(i, int(p["a"] + .5), int(p["d"] + .5))))


stage("resonator_bw_stream", extra=("param",),
      params=lambda W: {"k": W.pick("k", ["poles_exp", "z_exp",
                                          "freq_poles_exp", "freq_z_exp"])})(
  (lambda P, i, p: P.lf.resonator[p["k"]](.4, S(P, i[1]) * .1)(i[0]),
   lambda i, p: M.m_lockstep(i)))
stage("resonator_both_stream", extra=("param", "param"))(
  (lambda P, i, p: P.lf.resonator.z_exp(S(P, i[1]), S(P, i[2]) * .1)(i[0]),
   lambda i, p: M.m_lockstep(i)))
stage("gammatone_klapuri_stream", extra=("param",))(
  (lambda P, i, p: P.lau.gammatone.klapuri(S(P, i[1]), .1)(i[0]),
   lambda i, p: M.m_lockstep(i)))
stage("envelope_stream_cutoff", extra=("param",),
      params=lambda W: {"k": W.pick("k", ["rms", "abs", "squared"])})(
  (lambda P, i, p: P.la.envelope[p["k"]](i[0], cutoff=S(P, i[1])),
   lambda i, p: M.m_lockstep(i)))
stage("comb_tau", params=lambda W: {"d": W.pick("d", [1, 2, 3, 16, 25])})(
  (lambda P, i, p: P.lf.comb.tau(p["d"], 30.)(i[0]),
   lambda i, p: M.m_each(i)))
stage("erb", params=lambda W: {"k": W.pick("k", ["gm90", "mg83"])})(
  (lambda P, i, p: P.lau.erb[p["k"]](S(P, i[0]) + 50., Hz=1.),
   lambda i, p: M.m_each(i)))


# resampling with a time-varying step (a Stream of dyadic values: exact)
stage("resample_tv", extra=("step",), params=lambda W: {
  "new": W.pick("new", [1, 2, 4]), "order": W.span("order", 1, 4)},
  weight=3)(
  (lambda P, i, p: P.lp.resample(i[0], old=S(P, i[1]), new=p["new"],
                                 order=p["order"]),
   lambda i, p: M.m_resample_tv(i, p["new"], p["order"])))


stage("tv_pow3", extra=("param",), params=lambda W: {"n": W.pick("n", [3, 2,
                                                                     4])})(
  (lambda P, i, p: ((1 - S(P, i[1]) * P.lf.z ** -1) ** p["n"])(i[0]),
   lambda i, p: M.m_lockstep(i)))
stage("tv_pow_inverse", extra=("param",))(
  (lambda P, i, p: ((1 - S(P, i[1]) * .1 * P.lf.z ** -1) ** -2)(i[0]),
   lambda i, p: M.m_lockstep(i)))


class LazyList(list):
  """ A MutableSequence whose iteration is the simulator-owned reader: a
  stage that copies its (list) argument when it is built reads it. """

  def __init__(self, reader):
    list.__init__(self)
    self._reader = reader

  def __iter__(self):
    return iter(self._reader)


def mixer_listlike_real(P, i, p):
  mix = P.ls.Streamix(keep=p["keep"], zero=0)
  for d, src in zip(p["deltas"], i):
    mix.add(d, LazyList(src))
  return mix


stage("mixer_listlike", extra="var-num", params=mixer_params, weight=2)(
  (mixer_listlike_real, lambda i, p: M.m_mixer(i, mixer_starts(p),
                                               p["keep"])))


stage("cascade_with_callable")(
  (lambda P, i, p: P.lf.CascadeFilter(
    [make_filter(P, "fir"), lambda sig: P.ls.Stream(sig) * 2,
     make_filter(P, "delay")])(i[0]),
   lambda i, p: M.m_each(i)))
stage("parallel_with_callable")(
  (lambda P, i, p: P.lf.ParallelFilter(
    [make_filter(P, "iir"), lambda sig, **kw: P.ls.Stream(sig) + 1])(i[0]),
   lambda i, p: M.m_each(i)))


def _append_hub(P, i, p):
  hub = P.ls.thub(S(P, i[0]), 2)
  return P.lit.izip(P.ls.Stream(hub), P.ls.Stream([]).append(hub))


stage("append_hub_use", prod="tup")((_append_hub, lambda i, p: M.m_each(i)))
stage("tee_of_stream_pair", prod="tup")(
  (lambda P, i, p: P.lit.izip(*P.lit.tee(S(P, i[0]), 2)),
   lambda i, p: M.m_each(i)))
