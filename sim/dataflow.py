# -*- coding: utf-8 -*-
"""
Engine B - deterministic dataflow simulator: simulator-owned sources.

A SimSource is the only kind of leaf iterator the code under test sees.  It
counts what was delivered and attempted, ends at a seeded instant (EOF fault),
may be endless, and enforces a read budget: a read beyond the budget is an
over-read, a read beyond budget+slack raises SimStall so that an eager stage
on an endless source ends the run instead of hanging the checker.
"""


class SimStall(BaseException):
  """ A stage tried to read far beyond what the demand allows. """


class SimSource(object):
  __slots__ = ("sid", "length", "value_fn", "delivered", "attempts",
               "budget", "slack", "overreads", "eof_hits", "log", "name",
               "on_eof")

  def __init__(self, sid, length, value_fn=None, log=None, name=None):
    self.sid = sid
    self.length = length            # None = endless
    self.value_fn = value_fn or (lambda i, s=sid: s * 1000 + i)
    self.delivered = 0
    self.attempts = 0
    self.budget = None              # None = unlimited
    self.slack = 64
    self.overreads = 0
    self.eof_hits = 0
    self.log = log
    self.name = name or ("src%d" % sid)
    self.on_eof = None

  def __iter__(self):
    return self

  def __next__(self):
    self.attempts += 1
    if self.length is not None and self.delivered >= self.length:
      self.eof_hits += 1
      if self.on_eof is not None:
        self.on_eof(self)
      raise StopIteration
    if self.budget is not None and self.delivered >= self.budget:
      self.overreads += 1
      if self.delivered >= self.budget + self.slack:
        raise SimStall("%s read %d items, budget %d"
                       % (self.name, self.delivered + 1, self.budget))
    v = self.value_fn(self.delivered)
    self.delivered += 1
    return v

  next = __next__

  def values(self, n=None):
    """ The values this source holds (first n for an endless one). """
    if self.length is not None:
      n = self.length if n is None else min(n, self.length)
    return [self.value_fn(i) for i in range(n)]
