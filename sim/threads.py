# -*- coding: utf-8 -*-
"""
Engine A - deterministic thread simulator.

Real OS threads run the real code, but exactly one of them holds the baton at
any time; every other thread is parked on a private semaphore.  At every yield
point (simulated lock / event / join operation, fake device call, traced
source line, idle step) the running thread asks the scheduler who runs next;
that decision is drawn from the run's Decider, so one choice list is one
exactly repeatable execution.

Time is the scheduler's step counter: a stalled device call or an idle step
blocks its thread until ``steps >= wake``; when only timer-blocked threads
remain the clock jumps to the earliest wake-up (discrete-event time).
"""
import gc
import os
import sys
import threading as _real_threading
import types

from .kernel import HarnessError, Violation

_real_Lock = _real_threading.Lock
_real_Semaphore = _real_threading.Semaphore


class SimAbort(BaseException):
  """ Unwinds every simulated thread when a run is over (or failed). """


class SimFailure(Exception):
  def __init__(self, violation):
    Exception.__init__(self, repr(violation))
    self.violation = violation


CURRENT = None   # the scheduler of the run in progress (one per process)


def current():
  return CURRENT


class SimThread(object):
  def __init__(self, sched, idx, role):
    self.sched = sched
    self.idx = idx
    self.role = role
    self.sem = _real_Semaphore(0)
    self.state = "new"        # new | running | blocked | finished
    self.predicate = None
    self.block_kind = None
    self.block_target = None
    self.wake_at = None       # timer
    self.in_stall = False
    self.waiting_since = None  # decision number since runnable & unscheduled
    self.os_thread = None
    self.crashed = None
    self.held = 0             # SimLocks held
    self.priority = 0
    self.last_line = 0

  def describe_block(self):
    if self.state == "blocked":
      tgt = self.block_target
      if isinstance(tgt, SimThread):
        tgt = tgt.role
      return "%s@%s%s" % (self.role, self.block_kind,
                          "(%s)" % tgt if tgt else "")
    return "%s@%s" % (self.role, self.state)


_OPCODES_WARM = False


def _warm_up_opcode_tracing():
  """ CPython (3.12) delivers no "opcode" event to the very first frame of a
  process that asks for them (instruction instrumentation is switched on
  process-wide only then).  Without this the first instruction-granularity
  run of every worker process would differ from its replay. """
  global _OPCODES_WARM
  if _OPCODES_WARM:
    return
  _OPCODES_WARM = True

  def dummy():
    return None

  def local(frame, event, arg):
    return local

  def glob(frame, event, arg):
    if frame.f_code is dummy.__code__:
      frame.f_trace_opcodes = True
      return local
    return None

  old = sys.gettrace()
  sys.settrace(glob)
  try:
    dummy()
    dummy()
  finally:
    sys.settrace(old)


class Scheduler(object):
  """
  knobs: strategy in {rtb, random, sticky, pct}, sticky_den, pct_d, gap_max
  (line pre-emption: 0 = off), line_budget, fair (starvation cap F),
  stall_den / stall_long (device stalls), step_cap, phase2_seeded,
  phase2_base / phase2_per_chunk.
  """

  def __init__(self, S, knobs, trace_files=()):
    self.S = S
    self.k = dict(knobs)
    self.trace_files = frozenset(trace_files)
    self.threads = []
    self.current = None
    self.steps = 0            # simulated time (jumps over idle stretches)
    self.work = 0             # yield points executed (caps and bounds)
    self.decisions = 0
    self.cap = self.k.get("step_cap", 60000)
    self._op_frames = []
    self.raw_lines = 0
    self.raw_line_cap = self.k.get("raw_line_cap", int(os.environ.get(
      "VERIF_RAW_LINE_CAP", "600000")))
    self.aborting = False
    self.failure = None
    self.events = []
    self.counters = {}
    self.interleaving = []     # (thread idx, kind) at sync / device points
    self.states = set()
    self.state_fn = None
    self.phase = 1
    self.rr_from = None
    self.rr_last = 0
    self.phase2_start = None
    self.phase2_bound = None
    self.stalls_off = False
    self.switches = 0
    self.preemptions = 0
    self.line_gap = None
    self.line_budget = self.k.get("line_budget", 0)
    # "hot line": always pre-empt when a thread is about to execute this
    # source line (a chosen race window is held open), a few times per run
    self.hot_line = self.k.get("hot_line")
    self.hot_budget = self.k.get("hot_budget", 0) if self.hot_line else 0
    # pre-emption granularity: source line (default) or bytecode instruction
    # ("opcodes" knob: the gap between two pre-emption points then counts
    # instructions, so a switch can land inside one source line)
    self.opcodes = bool(self.k.get("opcodes", 0))
    # "slow node" fault: a worker thread stops being schedulable for a while
    # at one of its synchronisation points (1 in tstall_den of them)
    self.tstall_den = self.k.get("tstall_den", 0)
    # placement bias: stall only at this kind of synchronisation point (e.g.
    # "lock.rel": right after a critical section, where membership changes)
    self.tstall_at = self.k.get("tstall_at")
    # faults (stalls) go on during the seeded prefix of phase 2, i.e. while
    # close() is already running; they stop when round-robin starts
    self.faults_in_close = bool(self.k.get("faults_in_close", 0))
    if self.opcodes:
      _warm_up_opcode_tracing()
    self.pct_changes = []
    self.pct_low = -1
    self.inert = False
    self._stamp = 0
    self.main = self._new_thread("main")
    self.main.state = "running"
    self.current = self.main
    if self.k.get("strategy") == "pct":
      d = self.k.get("pct_d", 0)
      horizon = self.k.get("pct_horizon", 400)
      self.pct_changes = sorted(1 + self.S.choose("pct.at", horizon)
                                for _ in range(d))
    self._arm_line_gap()

  # ------------------------------------------------------------ bookkeeping
  def _new_thread(self, role):
    t = SimThread(self, len(self.threads), role)
    self.threads.append(t)
    if self.k.get("strategy") == "pct":
      # random priority among the existing ones (distinct, higher = runs)
      t.priority = 1 + self.S.choose("pct.prio", 1000)
    return t

  def stamp(self):
    """ Unique, totally ordered event sequence number (only one thread runs
    at a time, so the order is the real order). """
    self._stamp += 1
    return self._stamp

  def count(self, name, n=1):
    self.counters[name] = self.counters.get(name, 0) + n

  def log(self, text):
    if not self.aborting:
      self.events.append("%d %s" % (len(self.events), text))

  def _arm_line_gap(self):
    g = self.k.get("gap_max", 0)
    if g <= 0 or self.line_budget <= 0:
      self.line_gap = None
      return
    v = self.S.choose("line.gap", g)
    self.line_gap = None if v == 0 else v   # 0: no more line pre-emption

  # --------------------------------------------------------------- failures
  def fail(self, violation):
    """ Called by the thread holding the baton. """
    if self.failure is None:
      self.failure = violation
    self._abort_all()
    raise SimAbort()

  def _abort_all(self):
    self.aborting = True
    self.inert = True
    for t in self.threads:
      if t is not self.current and t.state != "finished":
        t.sem.release()

  def describe_threads(self):
    return " | ".join(t.describe_block() for t in self.threads
                      if t.state != "finished")

  # ------------------------------------------------------------- scheduling
  def _runnable(self):
    out = []
    for t in self.threads:
      if t.state == "running" or t.state == "new":
        out.append(t)
      elif t.state == "blocked":
        if t.wake_at is not None:
          if self.stalls_off or self.steps >= t.wake_at:
            out.append(t)
        elif t.predicate():
          out.append(t)
    return out

  def _next_timer(self):
    ws = [t.wake_at for t in self.threads
          if t.state == "blocked" and t.wake_at is not None]
    return min(ws) if ws else None

  def _pick(self, R, me, kind):
    """ One scheduling decision; at most one Decider draw. """
    self.decisions += 1
    # starvation cap: every schedule is fair in the long run
    F = self.k.get("fair", 64)
    starving = None
    for t in self.threads:
      if t not in R:
        t.waiting_since = None
    for t in R:
      if t is me and me.state == "running":
        continue
      if t.waiting_since is None:
        t.waiting_since = self.decisions
      elif self.decisions - t.waiting_since >= F:
        if starving is None or t.waiting_since < starving.waiting_since:
          starving = t
    if starving is not None:
      self.count("forced-by-fairness")
      return starving
    me_ok = me is not None and me.state == "running" and me in R
    if self.rr_from is not None and self.work >= self.rr_from:
      # deterministic round-robin (after faults stopped)
      order = sorted(R, key=lambda t: ((t.idx - self.rr_last - 1)
                                       % len(self.threads)))
      return order[0]
    strat = self.k.get("strategy", "random")
    others = [t for t in R if t is not me]
    if kind == "line":      # a line event that was selected: pre-empt
      if not others:
        return me
      return others[self.S.choose("sched.line", len(others))]
    if not me_ok:
      if strat == "pct":
        return max(R, key=lambda t: (t.priority, -t.idx))
      return R[self.S.choose("sched.blocked", len(R))]
    if strat == "rtb" or not others:
      return me
    if strat == "pct":
      return max(R, key=lambda t: (t.priority, -t.idx))
    if strat == "sticky":
      if not self.S.chance("sched.switch", 1, self.k.get("sticky_den", 4)):
        return me
      return others[self.S.choose("sched.other", len(others))]
    order = [me] + others    # random walk, value 0 = stay
    return order[self.S.choose("sched", len(order))]

  def yield_point(self, kind, sync=True):
    """
    Called by the thread that holds the baton.  May hand the baton to
    another thread and park the caller until it is picked again.
    """
    me = self.current
    if self.aborting:
      raise SimAbort()
    self.steps += 1
    self.work += 1
    if self.work > self.cap:
      self._on_cap()
    if self.phase2_bound is not None and self.rr_from is not None and \
       self.work - self.rr_from > self.phase2_bound:
      self.fail(Violation("close-hang:bound",
                          "no return within %d steps of round-robin "
                          "scheduling after faults stopped"
                          % self.phase2_bound, self.describe_threads()))
    if self.rr_from is not None and not self.stalls_off and \
       self.work >= self.rr_from:
      self.stalls_off = True       # faults stop; the bound counts from here
    if sync and self.tstall_den and not self.stalls_off and \
       me is not None and me is not self.main and me.state == "running" \
       and not me.in_stall and kind != "thread-stall" and \
       (self.tstall_at is None or kind == self.tstall_at):
      if self.S.chance("tstall", 1, self.tstall_den):
        k = 400 if self.S.chance("tstall.long", 1,
                                 10 if self.tstall_at is None else 3) \
          else 1 + self.S.choose("tstall.k", 60)
        self.count("fault.thread-stall")
        me.in_stall = True
        try:
          self.block("thread-stall", None, wake_at=self.steps + k)
        finally:
          me.in_stall = False
        return
    if self.pct_changes and self.work >= self.pct_changes[0]:
      self.pct_changes.pop(0)
      if me is not None:
        me.priority = self.pct_low
        self.pct_low -= 1
    while True:
      R = self._runnable()
      if R:
        break
      nt = self._next_timer()
      if nt is None:
        self._on_deadlock()
      self.count("clock-jumps")
      self.steps = max(self.steps, nt)
    t = self._pick(R, me, kind)
    if sync:
      self.interleaving.append((t.idx, kind))
    if self.state_fn is not None:
      self.states.add(self.state_fn(self))
    self._switch_to(t, me, kind)

  def _switch_to(self, t, me, kind):
    t.waiting_since = None
    self.rr_last = t.idx
    if t is me:
      if me.state == "blocked":
        me.state = "running"
        me.predicate = None
        me.wake_at = None
      return
    self.switches += 1
    if me is not None and me.state == "running":
      self.preemptions += 1
      if me.held:
        self.count("fault.preempt-in-critical")
    if t.state == "blocked":
      t.predicate = None
      t.wake_at = None
    was_new = t.state == "new"
    t.state = "running"
    self.current = t
    self.log("switch %s->%s @%s" % (me.role if me else "-", t.role, kind))
    t.sem.release()
    if me is not None and me.state != "finished":
      me.sem.acquire()
      if self.aborting:
        raise SimAbort()
      # picked again: the scheduler already made us current and running

  def block(self, kind, predicate, target=None, wake_at=None):
    me = self.current
    if self.aborting:
      raise SimAbort()
    me.state = "blocked"
    me.predicate = predicate
    me.block_kind = kind
    me.block_target = target
    me.wake_at = wake_at
    self.yield_point(kind)
    me.block_kind = None
    me.block_target = None

  def sleep(self, k, kind="idle"):
    """ Not runnable for k steps (clock jumps if nobody else is either). """
    if k <= 0 or self.stalls_off:
      self.yield_point(kind)
      return
    self.block(kind, None, wake_at=self.steps + k)

  def line_event(self):
    """ Called from the trace function for a line in a selected file. """
    if self.line_gap is None or self.aborting or self.inert:
      return
    self.line_gap -= 1
    if self.line_gap > 0:
      return
    self.line_budget -= 1
    self.count("opcode-preemption-points" if self.opcodes
               else "line-preemption-points")
    self._arm_line_gap()
    self.yield_point("line", sync=False)

  def _on_cap(self):
    endless = self.k.get("endless_runnable", None)
    if endless is not None and endless(self):
      self.failure = None
      self.count("budget-exhausted")
      self.budget_exhausted = True
      self._abort_all()
      raise SimAbort()
    self.fail(Violation("no-progress", self.describe_signature(),
                        "step cap %d exceeded; %s"
                        % (self.cap, self.describe_threads())))

  budget_exhausted = False

  def describe_signature(self):
    main = self.main.describe_block()
    rest = sorted(set(t.describe_block().replace(t.role, "P", 1)
                      for t in self.threads
                      if t is not self.main and t.state != "finished"))
    mt = self.main
    if mt.state == "blocked" and isinstance(mt.block_target, SimThread):
      main = "main@%s(P)" % mt.block_kind
    return main + "|" + ",".join(rest)

  def _on_deadlock(self):
    self.fail(Violation("deadlock", self.describe_signature(),
                        self.describe_threads()))

  # -------------------------------------------------------- thread lifecycle
  def spawn(self, role, target, on_start=None):
    """
    Register and really start a thread whose body is ``target()``; the OS
    thread parks before its first line until the scheduler picks it.
    """
    st = self._new_thread(role)
    sched = self

    def body():
      st.sem.acquire()
      if sched.aborting:
        st.state = "finished"
        return
      if sched.trace_files:
        sys.settrace(sched._global_trace)
      try:
        sched.log("begin %s" % st.role)
        target()
      except SimAbort:
        st.state = "finished"
        return
      except BaseException as exc:   # the simulated thread crashed
        st.crashed = exc
        sched.log("crash %s %s" % (st.role, type(exc).__name__))
      finally:
        sys.settrace(None)
      try:
        sched.finish_current()
      except SimAbort:
        st.state = "finished"

    th = _real_threading.Thread(target=body, name="sim-" + role)
    th.daemon = True
    st.os_thread = th
    th.start()
    return st

  def delay_start(self, st, k):
    """ late-start fault: not schedulable before steps+k. """
    if k > 0 and not self.stalls_off:
      st.state = "blocked"
      st.block_kind = "late-start"
      st.wake_at = self.steps + k
      st.predicate = None
      self.count("fault.late-start")

  def finish_current(self):
    """ The current thread's body returned: hand the baton on, do not park. """
    me = self.current
    me.state = "finished"
    self.log("end %s" % me.role)
    if self.aborting:
      return
    while True:
      R = self._runnable()
      if R:
        break
      nt = self._next_timer()
      if nt is None:
        if all(t.state == "finished" for t in self.threads):
          return
        self._on_deadlock()
      self.steps = max(self.steps, nt)
    t = self._pick(R, None, "thread.end")
    self.interleaving.append((t.idx, "thread.end"))
    self._switch_to(t, None, "thread.end")

  def join(self, st):
    self.yield_point("join")
    if st.state != "finished":
      self.block("join", lambda: st.state == "finished", target=st)

  # ------------------------------------------------------------------ phases
  def enter_phase2(self, bound):
    """ Faults stop; after a seeded number of further seeded decisions the
    scheduler becomes deterministic round-robin and the bound starts. """
    self.phase = 2
    self.stalls_off = not self.faults_in_close
    self.phase2_start = self.work
    seeded = self.S.choose("phase2.seeded", self.k.get("phase2_seeded", 1))
    self.rr_from = self.work + seeded
    self.phase2_bound = bound
    self.log("phase2 rr_from=+%d" % seeded)

  def leave_phase2(self):
    self.phase2_bound = None

  # ----------------------------------------------------------------- tracing
  def _global_trace(self, frame, event, arg):
    if frame.f_code.co_filename in self.trace_files:
      if self.opcodes and not self.inert:
        frame.f_trace_opcodes = True
        if frame.f_code.co_flags & 0x20:      # a generator: it may be resumed
          self._op_frames.append(frame)       # (closed) when off the stack
      return self._local_trace
    return None

  def _disarm_opcodes(self, frame=None):
    """ CPython 3.12.1 crashes (NULL call in sys_trace_instruction_func)
    when an exception leaves a trace callback while other threads are still
    tracing: the raising thread loses its trace function, the interpreter
    keeps delivering instruction events to every frame that asked for them.
    So before such an exception leaves (and at the end of every run) no
    frame asks for them any more. """
    frames, self._op_frames = self._op_frames, []
    while frame is not None:
      frames.append(frame)
      frame = frame.f_back
    for f in frames:
      try:
        f.f_trace_opcodes = False
      except Exception:
        pass

  def _local_trace(self, frame, event, arg):
    try:
      return self._local_trace_body(frame, event, arg)
    except BaseException:
      if self.opcodes:
        self._disarm_opcodes(frame)
      raise

  def _local_trace_body(self, frame, event, arg):
    if event == "line":
      if CURRENT is self and not self.inert:
        # a loop that spins without ever reaching a synchronisation point
        # (no pre-emption budget left: lines run free) still ends the run
        self.raw_lines += 1
        if self.raw_lines > self.raw_line_cap and not self.aborting:
          self.count("spin-cap-reached")
          self.fail(Violation(
            "no-progress", "spin:" + self.describe_signature(),
            "%d source lines of the code under test executed in this run "
            "without the run ending (last line %d of %s); %s"
            % (self.raw_lines, frame.f_lineno,
               os.path.basename(frame.f_code.co_filename),
               self.describe_threads())))
        cur = self.current
        if cur is not None:
          cur.last_line = frame.f_lineno
        if self.hot_budget > 0 and frame.f_lineno == self.hot_line and \
           not self.aborting:
          self.hot_budget -= 1
          self.count("hot-line-preemptions")
          self.yield_point("line", sync=False)
        elif not self.opcodes:
          self.line_event()
    elif event == "opcode":
      if self.opcodes and CURRENT is self and not self.inert:
        self.line_event()
    return self._local_trace

  # ------------------------------------------------------------------- run
  def run(self, main_fn):
    """
    Runs ``main_fn()`` as the simulated main thread.  Returns its result;
    raises SimFailure when the run ended in a violation found by the
    scheduler.  Always leaves the process with no simulated thread alive.
    """
    global CURRENT
    if CURRENT is not None:
      raise HarnessError("nested simulation")
    CURRENT = self
    gc_was = gc.isenabled()
    gc.disable()
    result = None
    error = None
    if self.trace_files:
      sys.settrace(self._global_trace)
    try:
      try:
        result = main_fn()
      finally:
        if self.opcodes:
          self._disarm_opcodes()
        sys.settrace(None)
    except SimAbort:
      pass
    except SimFailure as sf:
      if self.failure is None:
        self.failure = sf.violation
    except BaseException as exc:
      error = exc
    finally:
      # tear down: release everything that is still parked
      self.main.state = "finished"
      self.current = None
      self._abort_all()
      stuck = []
      for t in self.threads:
        if t.os_thread is not None:
          t.os_thread.join(120.0)
          if t.os_thread.is_alive():
            stuck.append(t.role)
      CURRENT = None
      if gc_was:
        gc.enable()
      if stuck:
        raise HarnessError("simulated threads could not be joined: %r"
                           % stuck)
    if error is not None:
      raise error
    if self.failure is not None:
      raise SimFailure(self.failure)
    return result


# ----------------------------------------------------------------------------
# simulated primitives (bound to the scheduler that was current at creation)
# ----------------------------------------------------------------------------
class SimLock(object):
  def __init__(self):
    self.sched = CURRENT
    self.owner = None
    self._plain = _real_Lock()

  def _sim(self):
    s = self.sched
    return s is not None and s is CURRENT and not s.inert

  def acquire(self, blocking=True, timeout=-1):
    if not self._sim():
      if self.sched is not None and self.sched.aborting:
        return True                      # unwinding: inert
      return self._plain.acquire(blocking, timeout)
    s = self.sched
    s.yield_point("lock.acq")
    if self.owner is not None:
      if not blocking:
        return False
      s.count("lock-contended")
      s.block("lock", lambda: self.owner is None, target=self.owner)
    me = s.current
    self.owner = me
    me.held += 1
    return True

  def release(self):
    if not self._sim():
      if self.sched is not None and self.sched.aborting:
        return
      self._plain.release()
      return
    if self.owner is None:
      raise RuntimeError("release unlocked lock")
    self.owner.held -= 1
    self.owner = None
    self.sched.yield_point("lock.rel")

  def locked(self):
    return self.owner is not None or self._plain.locked()

  __enter__ = acquire

  def __exit__(self, *exc):
    self.release()


class SimRLock(SimLock):
  """ Re-entrant variant (threading.RLock). """

  def __init__(self):
    SimLock.__init__(self)
    self.depth = 0
    self._plain = _real_threading.RLock()

  def acquire(self, blocking=True, timeout=-1):
    if self._sim() and self.owner is self.sched.current and \
       self.owner is not None:
      self.depth += 1
      return True
    got = SimLock.acquire(self, blocking, timeout)
    if got and self._sim():
      self.depth = 1
    return got

  def release(self):
    if self._sim() and self.depth > 1:
      self.depth -= 1
      return
    self.depth = 0
    SimLock.release(self)

  __enter__ = acquire


class SimEvent(object):
  """
  Faithful to threading.Event: set() wakes every thread waiting at that
  moment, even if the flag is cleared again before the waiter runs.
  """

  def __init__(self):
    self.sched = CURRENT
    self.flag = False
    self.waiters = []

  def _sim(self):
    s = self.sched
    return s is not None and s is CURRENT and not s.inert

  def is_set(self):
    if self._sim():
      self.sched.yield_point("ev.is_set")
    return self.flag

  isSet = is_set

  def set(self):
    if self._sim():
      self.sched.yield_point("ev.set")
    self.flag = True
    for w in self.waiters:
      w[0] = True
    self.waiters = []

  def clear(self):
    if self._sim():
      self.sched.yield_point("ev.clear")
    self.flag = False

  def wait(self, timeout=None):
    if not self._sim():
      return True                        # plain / inert: never blocks
    s = self.sched
    s.yield_point("ev.wait")
    if self.flag:
      return True
    if timeout is not None:
      # no timeout exists in the code under test; model it as a timer
      s.sleep(max(1, int(timeout * 100)), "ev.wait-timeout")
      return self.flag
    token = [False]
    self.waiters.append(token)
    s.count("event-waits-blocked")
    s.block("ev.wait", lambda: token[0], target=None)
    return True


def make_threading_shim():
  """ Namespace to install as ``lazy_io.threading``. """
  shim = types.SimpleNamespace()
  for name in dir(_real_threading):
    if not name.startswith("__"):
      setattr(shim, name, getattr(_real_threading, name))
  shim.Lock = SimLock
  shim.RLock = SimRLock
  shim.Event = SimEvent
  return shim


def shim_module_globals(module, shim):
  """
  Every synchronisation primitive a module of the code under test can reach
  through its globals becomes simulator-owned: the ``threading`` module
  itself, or names imported from it (Lock, RLock, Event).  Returns the names
  replaced.
  """
  import _thread
  done = []
  for name, val in list(vars(module).items()):
    if val is _real_threading:
      setattr(module, name, shim)
      done.append(name)
    elif val is _real_threading.Lock or val is _thread.allocate_lock:
      setattr(module, name, SimLock)
      done.append(name)
    elif val is _real_threading.RLock:
      setattr(module, name, SimRLock)
      done.append(name)
    elif val is _real_threading.Event:
      setattr(module, name, SimEvent)
      done.append(name)
  return done
