# -*- coding: utf-8 -*-
"""
Kernel shared by both simulation engines: seed derivation, the choice-sequence
Decider, run batches over worker processes, shrinking, replay files, known
findings and evidence files.  One integer (VERIF_SEED) decides everything.

Nothing in here reads a clock or draws from a PRNG while logging.
"""
from __future__ import print_function

import faulthandler
import hashlib
import json
import multiprocessing
import os
import random
import subprocess
import sys
import time
import traceback
from collections import Counter
from concurrent.futures import ProcessPoolExecutor, as_completed

VERIF_DIR = os.path.dirname(os.path.dirname(os.path.abspath(__file__)))
REPO_DIR = os.environ.get("VERIF_REPO", "/repo")
PYTHON = sys.executable

EXIT_PASS, EXIT_VIOLATION, EXIT_HARNESS = 0, 1, 2

MASK64 = (1 << 64) - 1


# --------------------------------------------------------------------------
# seeds
# --------------------------------------------------------------------------
def splitmix64(x):
  x = (x + 0x9E3779B97F4A7C15) & MASK64
  z = x
  z = ((z ^ (z >> 30)) * 0xBF58476D1CE4E5B9) & MASK64
  z = ((z ^ (z >> 27)) * 0x94D049BB133111EB) & MASK64
  return z ^ (z >> 31)


def derive_seed(base, prop_id, run_index, stream=0):
  """ Seed of run ``run_index`` of property ``prop_id``; never uses hash(). """
  h = splitmix64(base & MASK64)
  for ch in prop_id.encode("ascii"):
    h = splitmix64(h ^ ch)
  h = splitmix64(h ^ (run_index & MASK64))
  h = splitmix64(h ^ (stream & MASK64))
  return h


def stable_hash(obj):
  """ 64 bit hash of a JSON-able / repr-able object, PYTHONHASHSEED-free. """
  if not isinstance(obj, (bytes, bytearray)):
    obj = repr(obj).encode("utf-8")
  return int.from_bytes(hashlib.blake2b(obj, digest_size=8).digest(), "big")


def digest_events(events):
  h = hashlib.blake2b(digest_size=8)
  for ev in events:
    h.update(ev.encode("utf-8") if isinstance(ev, str) else repr(ev).encode())
    h.update(b"\n")
  return h.hexdigest()


# --------------------------------------------------------------------------
# Decider: the choice sequence *is* the execution
# --------------------------------------------------------------------------
class Decider(object):
  """
  Hands out every decision of a run.  Value 0 is always the simplest option.
  In replay mode recorded values are fed back; an exhausted list or an
  out-of-range value gives 0.
  """
  __slots__ = ("rng", "replay", "pos", "log", "kinds", "keep_kinds")

  def __init__(self, seed=None, replay=None, keep_kinds=False):
    self.replay = None if replay is None else list(replay)
    self.rng = random.Random(seed) if replay is None else None
    self.pos = 0
    self.log = []
    self.keep_kinds = keep_kinds
    self.kinds = []

  def choose(self, kind, n):
    """ Integer in [0, n). """
    if n <= 1:
      return 0
    if self.replay is not None:
      v = self.replay[self.pos] if self.pos < len(self.replay) else 0
      self.pos += 1
      if not isinstance(v, int) or v < 0 or v >= n:
        v = 0
    else:
      v = self.rng.randrange(n)
    self.log.append(v)
    if self.keep_kinds:
      self.kinds.append(kind)
    return v

  def chance(self, kind, num, den):
    """ True with probability num/den; recorded value 0 means False. """
    if num <= 0:
      return False
    return self.choose(kind, den) >= den - num  # 0 -> False

  def pick(self, kind, seq):
    return seq[self.choose(kind, len(seq))]

  def weighted(self, kind, pairs):
    """ pairs = [(weight, item), ...]; the first item is the simplest. """
    total = sum(w for w, _ in pairs)
    v = self.choose(kind, total)
    for w, item in pairs:
      if v < w:
        return item
      v -= w
    return pairs[-1][1]

  def span(self, kind, lo, hi):
    """ Integer in [lo, hi], lo is the simplest. """
    return lo + self.choose(kind, hi - lo + 1)


# --------------------------------------------------------------------------
# run results
# --------------------------------------------------------------------------
class Violation(object):
  def __init__(self, klass, signature, detail=""):
    self.klass = klass
    self.signature = signature
    self.detail = detail

  def as_dict(self):
    return {"class": self.klass, "signature": self.signature,
            "detail": self.detail}

  def key(self):
    return self.klass + "|" + self.signature

  def __repr__(self):
    return "Violation(%s | %s)" % (self.klass, self.signature)


class HarnessError(Exception):
  """ The machinery's own fault: never reported as a violation. """


class RunResult(object):
  __slots__ = ("violation", "digest", "nontrivial_key", "states", "counters",
               "steps", "sample", "s_log", "observations")

  def __init__(self):
    self.violation = None
    self.digest = ""
    self.nontrivial_key = None
    self.states = ()
    self.counters = Counter()
    self.steps = 0
    self.sample = None
    self.s_log = []
    self.observations = []


# --------------------------------------------------------------------------
# known findings
# --------------------------------------------------------------------------
def load_known_findings(prop_id):
  path = os.path.join(VERIF_DIR, "known_findings.json")
  try:
    with open(path) as f:
      data = json.load(f)
  except IOError:
    return []
  out = []
  for ent in data.get("findings", []):
    if ent.get("property") == prop_id and ent.get("status") == "known":
      out.append(ent)
  return out


def match_known(known, violation):
  """ A known entry matches on class and on signature prefix. """
  for ent in known:
    if ent.get("class") == violation.klass and \
       violation.signature.startswith(ent.get("signature_prefix", "\0")):
      return ent
  return None


# --------------------------------------------------------------------------
# property plug-in interface
# --------------------------------------------------------------------------
class Property(object):
  """
  Subclasses provide:
    id, engine, level_rule (str), components (dict real/stub lists)
    gen_workload(W, index) -> JSON-able workload
    run(workload, S, want_sample=False) -> RunResult
    shrink_candidates(workload) -> iterable of smaller workloads
    corpus() -> list of workloads always run first
    budget(tier) -> (max_runs, wall_seconds)
  """
  id = "C00"
  engine = "dataflow"
  rule = ""
  components = {"real": [], "stub": []}
  assumptions = []
  fault_kinds = []

  def setup(self):
    pass

  def corpus(self):
    return []

  def shrink_candidates(self, workload):
    return []

  def budget(self, tier):
    return (2000, 30.0) if tier == "quick" else (200000, 600.0)

  def extra_schedules(self):
    """ How many fresh S seeds each corpus workload gets besides S=[]. """
    return 3

  def corpus_replays(self):
    """ Directed (workload, explicit schedule) pairs kept under
    sim/corpus/<ID>-*.json: the minimised replay of a violation that was
    once found by search and is hard to find again (a narrow interleaving).
    Run right after the corpus; on a tree where the defect is repaired the
    same schedule simply passes. """
    out = []
    d = os.path.join(os.path.dirname(os.path.abspath(__file__)), "corpus")
    if os.path.isdir(d):
      for name in sorted(os.listdir(d)):
        if name.startswith(self.id + "-") and name.endswith(".json"):
          with open(os.path.join(d, name)) as fh:
            doc = json.load(fh)
          out.append((name, doc["workload"], doc["S"],
                      int(doc.get("seeded_schedules", 0))))
    return out


def import_repo():
  """ Import audiolazy from /repo's working tree, fresh, and assert it. """
  sys.dont_write_bytecode = True
  if REPO_DIR not in sys.path:
    sys.path.insert(0, REPO_DIR)
  import warnings
  warnings.simplefilter("ignore")
  import audiolazy
  here = os.path.realpath(os.path.dirname(audiolazy.__file__))
  if not here.startswith(os.path.realpath(REPO_DIR) + os.sep):
    raise HarnessError("audiolazy imported from %s, not from %s"
                       % (here, REPO_DIR))
  return audiolazy


# --------------------------------------------------------------------------
# one run (from seed, or from explicit workload + S list)
# --------------------------------------------------------------------------
def run_from_seed(prop, base_seed, index, want_sample=False):
  wseed = derive_seed(base_seed, prop.id, index, 1)
  sseed = derive_seed(base_seed, prop.id, index, 2)
  W = Decider(seed=wseed)
  workload = prop.gen_workload(W, index)
  S = Decider(seed=sseed)
  res = prop.run(workload, S, want_sample=want_sample)
  res.s_log = S.log
  return workload, res


def run_explicit(prop, workload, s_list=None, s_seed=None, want_sample=False):
  if s_seed is not None:
    S = Decider(seed=s_seed)
  else:
    S = Decider(replay=s_list or [])
  res = prop.run(workload, S, want_sample=want_sample)
  res.s_log = S.log
  return res


# --------------------------------------------------------------------------
# worker side
# --------------------------------------------------------------------------
_WORKER_PROP = None


def _worker_init(prop_factory_name):
  global _WORKER_PROP
  faulthandler.enable()
  from . import props
  _WORKER_PROP = props.load(prop_factory_name)
  _WORKER_PROP.setup()


class BatchStats(object):
  def __init__(self):
    self.runs = 0
    self.steps = 0
    self.counters = Counter()
    self.nontrivial = set()
    self.states = set()
    self.digests = set()
    self.samples = []
    self.known_seen = Counter()
    self.violations = []   # dicts with everything needed to shrink
    self.observations = Counter()
    self.per_run_digest = []   # (index, digest) when asked

  def merge(self, other):
    self.runs += other.runs
    self.steps += other.steps
    self.counters.update(other.counters)
    self.nontrivial |= other.nontrivial
    self.states |= other.states
    self.digests |= other.digests
    if len(self.samples) < 4:
      self.samples.extend(other.samples[:4 - len(self.samples)])
    self.known_seen.update(other.known_seen)
    self.violations.extend(other.violations)
    self.observations.update(other.observations)
    self.per_run_digest.extend(other.per_run_digest)


def _account(stats, prop, known, workload, res, origin, keep_digest=False):
  stats.runs += 1
  stats.steps += res.steps
  stats.counters.update(res.counters)
  if res.nontrivial_key is not None:
    stats.nontrivial.add(res.nontrivial_key)
  if res.states:
    stats.states.update(res.states)
  stats.digests.add(res.digest)
  for ob in res.observations:
    stats.observations[ob] += 1
  if keep_digest:
    stats.per_run_digest.append((origin, res.digest))
  if res.sample is not None and len(stats.samples) < 2:
    stats.samples.append(res.sample)
  if res.violation is not None:
    ent = match_known(known, res.violation)
    if ent is not None:
      stats.known_seen[ent["id"]] += 1
    else:
      stats.violations.append({"origin": origin, "workload": workload,
                               "s_log": list(res.s_log),
                               "violation": res.violation.as_dict(),
                               "digest": res.digest})


def _worker_chunk(args):
  (base_seed, start, stop, deadline, keep_digest, sample_every) = args
  prop = _WORKER_PROP
  known = load_known_findings(prop.id)
  stats = BatchStats()
  faulthandler.dump_traceback_later(int(os.environ.get("VERIF_HANG_S", "420")), exit=True)
  try:
    for index in range(start, stop):
      if time.time() > deadline:
        break
      want = (index % sample_every == 0)
      try:
        workload, res = run_from_seed(prop, base_seed, index, want)
      except HarnessError:
        raise
      except BaseException:
        raise HarnessError("run %d of %s crashed in the harness:\n%s"
                           % (index, prop.id, traceback.format_exc()))
      _account(stats, prop, known, workload, res, ["seed", index],
               keep_digest)
      if stats.violations:
        break
  finally:
    faulthandler.cancel_dump_traceback_later()
  return (start, stats)


# --------------------------------------------------------------------------
# shrinking
# --------------------------------------------------------------------------
def _same(res, target_key):
  return res.violation is not None and res.violation.key() == target_key


def shrink(prop, workload, s_log, target_key, budget=600, log=None,
           wall=240.0):
  """
  Greedy delta debugging: first on the explicit workload (schedule re-used,
  then the all-zero schedule, then a few fresh ones), then on the S list.
  Bounded by a number of re-executions and by wall-clock time (a violation
  that is a hang costs a full hang timeout per re-execution).
  """
  spent = [0]
  t_end = time.time() + wall
  if "hang" in target_key:
    budget = min(budget, 6)

  def attempt(wl, s_list=None, s_seed=None):
    spent[0] += 1
    if time.time() > t_end:
      spent[0] = budget          # out of time: stop shrinking
      return None
    try:
      r = run_explicit(prop, wl, s_list=s_list, s_seed=s_seed)
    except HarnessError:
      raise
    except BaseException:
      return None
    return r if _same(r, target_key) else None

  # (a) workload
  improved = True
  while improved and spent[0] < budget:
    improved = False
    for cand in prop.shrink_candidates(workload):
      if spent[0] >= budget:
        break
      hit = attempt(cand, s_list=s_log)
      if hit is None and s_log:
        hit = attempt(cand, s_list=[])
      if hit is None and prop.engine == "threads":
        for k in range(3):
          hit = attempt(cand, s_seed=derive_seed(k, "shrink", spent[0]))
          if hit is not None:
            break
      if hit is not None:
        workload, s_log = cand, list(hit.s_log)
        improved = True
        break

  # (b) S list: truncate, delete spans, zero, lower
  def ok(cand_s):
    r = attempt(workload, s_list=cand_s)
    return r

  s_log = list(s_log)
  changed = True
  while changed and spent[0] < budget:
    changed = False
    # truncate the tail
    lo, hi = 0, len(s_log)
    while lo < hi and spent[0] < budget:
      mid = (lo + hi) // 2
      if ok(s_log[:mid]) is not None:
        hi = mid
      else:
        lo = mid + 1
    if hi < len(s_log):
      s_log = s_log[:hi]
      changed = True
    # delete spans
    size = max(1, len(s_log) // 2)
    while size >= 1 and spent[0] < budget:
      i = 0
      while i < len(s_log) and spent[0] < budget:
        cand = s_log[:i] + s_log[i + size:]
        if len(cand) < len(s_log) and ok(cand) is not None:
          s_log = cand
          changed = True
        else:
          i += size
      size //= 2
    # zero single choices
    for i in range(len(s_log)):
      if spent[0] >= budget:
        break
      if s_log[i] != 0:
        cand = list(s_log)
        cand[i] = 0
        if ok(cand) is not None:
          s_log = cand
          changed = True
    # strip trailing zeros (exhausted list gives 0 anyway)
    while s_log and s_log[-1] == 0:
      s_log.pop()
  final = run_explicit(prop, workload, s_list=s_log, want_sample=True)
  if not _same(final, target_key):
    raise HarnessError("shrunk run no longer reproduces %s" % target_key)
  return workload, s_log, final, spent[0]


# --------------------------------------------------------------------------
# replay files
# --------------------------------------------------------------------------
def write_replay(prop, base_seed, origin, workload, s_log, res, extra=None):
  d = os.environ.get("VERIF_REPLAY_DIR") or os.path.join(VERIF_DIR, "replays")
  os.makedirs(d, exist_ok=True)
  tag = "%s-%d-%s" % (prop.id, base_seed,
                      "-".join(str(x) for x in origin))
  path = os.path.join(d, tag + ".json")
  doc = {"property": prop.id, "engine": prop.engine, "base_seed": base_seed,
         "origin": origin, "workload": workload, "S": list(s_log),
         "violation": res.violation.as_dict() if res.violation else None,
         "event_digest": res.digest, "decoded": res.sample}
  if extra:
    doc.update(extra)
  with open(path, "w") as f:
    json.dump(doc, f, indent=1, sort_keys=True, default=repr)
    f.write("\n")
  return path


def replay_file(prop, path, quiet=False):
  with open(path) as f:
    doc = json.load(f)
  if doc.get("property") != prop.id:
    raise HarnessError("replay file is for %s" % doc.get("property"))
  res = run_explicit(prop, doc["workload"], s_list=doc.get("S", []),
                     want_sample=True)
  out = {"violation": res.violation.as_dict() if res.violation else None,
         "event_digest": res.digest}
  if not quiet:
    print("REPLAY " + json.dumps(out, sort_keys=True))
  return doc, res


def validate_replay_fresh(prop, path):
  """ Re-execute the replay in a fresh interpreter under another hash seed. """
  env = dict(os.environ)
  env["PYTHONHASHSEED"] = "11"
  env["VERIF_REPLAY_CHILD"] = "1"
  cmd = [PYTHON, os.path.join(VERIF_DIR, "check"), prop.id, "--replay", path]
  try:
    out = subprocess.run(cmd, env=env, stdout=subprocess.PIPE,
                         stderr=subprocess.PIPE, timeout=300)
  except subprocess.TimeoutExpired:
    raise HarnessError("fresh replay of %s timed out" % path)
  text = out.stdout.decode("utf-8", "replace")
  for line in text.splitlines():
    if line.startswith("REPLAY "):
      return json.loads(line[len("REPLAY "):])
  raise HarnessError("fresh replay of %s printed no REPLAY line:\n%s\n%s"
                     % (path, text, out.stderr.decode("utf-8", "replace")))


class _FinalShim(object):
  def __init__(self, violation):
    self.violation = violation


def _fresh_only(prop, base_seed, first):
  """ Replay the original (unshrunk) run in two fresh interpreters. """
  class _R(object):
    pass
  res = _R()
  res.violation = Violation(first["violation"]["class"],
                            first["violation"]["signature"],
                            first["violation"].get("detail", ""))
  res.digest = first.get("digest", "")
  res.sample = None
  path = write_replay(prop, base_seed, first["origin"], first["workload"],
                      first["s_log"], res,
                      {"note": "not shrunk: re-executions inside one process "
                               "disagree (state kept between runs); verified "
                               "by fresh-interpreter replays only"})
  a = validate_replay_fresh(prop, path)
  b = validate_replay_fresh(prop, path)
  va, vb = a.get("violation"), b.get("violation")
  if not va or not vb or va.get("signature") != vb.get("signature") or \
     a.get("event_digest") != b.get("event_digest"):
    return None
  v = Violation(va["class"], va["signature"], va.get("detail", ""))
  res.violation, res.digest = v, a.get("event_digest")
  write_replay(prop, base_seed, first["origin"], first["workload"],
               first["s_log"], res,
               {"note": "not shrunk: re-executions inside one process "
                        "disagree (state kept between runs); verified by two "
                        "fresh-interpreter replays"})
  v.path = path
  return v


# --------------------------------------------------------------------------
# evidence
# --------------------------------------------------------------------------
def write_evidence(prop, tier, base_seed, stats, wall, violations, extra=None):
  d = os.path.join(VERIF_DIR, "evidence")
  os.makedirs(d, exist_ok=True)
  path = os.path.join(d, prop.id + ".json")
  faults = {k[len("fault."):]: v for k, v in sorted(stats.counters.items())
            if k.startswith("fault.")}
  probes = {k[len("probe."):]: v for k, v in sorted(stats.counters.items())
            if k.startswith("probe.")}
  ops = {k[len("op."):]: v for k, v in sorted(stats.counters.items())
         if k.startswith("op.")}
  other = {k: v for k, v in sorted(stats.counters.items())
           if not k.startswith(("fault.", "probe.", "op."))}
  cov = {
    "evaluations": stats.runs,
    "distinct_nontrivial": len(stats.nontrivial),
    "rule": prop.rule,
    "samples": stats.samples[:3] or ["<no sample recorded>"],
    "runs_per_hour": int(stats.runs * 3600.0 / wall) if wall > 0 else 0,
    "sim_steps": stats.steps,
    "distinct_event_digests": len(stats.digests),
    "distinct_states": len(stats.states),
    "faults_fired": faults,
    "probes": probes,
    "operations": ops,
    "counters": other,
    "known_findings_seen": dict(stats.known_seen),
    "observations_not_deciding": dict(stats.observations),
    "components": prop.components,
    "exhaustive": False,
  }
  if extra:
    cov.update(extra)
  doc = {"property_id": prop.id, "tier": tier, "seed": base_seed,
         "level": "exploration", "coverage": cov,
         "assumptions": list(prop.assumptions), "wall_s": round(wall, 3),
         "violations": violations}
  tmp = path + ".tmp"
  with open(tmp, "w") as f:
    json.dump(doc, f, indent=1, sort_keys=True, default=repr)
    f.write("\n")
  os.replace(tmp, path)
  return path


# --------------------------------------------------------------------------
# batch driver
# --------------------------------------------------------------------------
def run_corpus(prop, stats, known, base_seed, keep_digest=False):
  """ Directed corpus first: every entry under S=[] and a few seeded S. """
  n = 0
  if os.environ.get("VERIF_NO_CORPUS"):      # experiments only
    return
  for ci, workload in enumerate(prop.corpus()):
    tries = [("zero", None)]
    for k in range(prop.extra_schedules()):
      tries.append(("seeded", derive_seed(base_seed, prop.id + "corpus",
                                         ci, k)))
    for ti, (mode, sseed) in enumerate(tries):
      want = (n % 7 == 0)
      try:
        res = run_explicit(prop, workload, s_list=[] if sseed is None
                           else None, s_seed=sseed, want_sample=want)
      except HarnessError:
        raise
      except BaseException:
        raise HarnessError("corpus entry %d of %s crashed in the harness:\n%s"
                           % (ci, prop.id, traceback.format_exc()))
      _account(stats, prop, known, workload, res, ["corpus", ci, ti],
               keep_digest)
      stats.counters["corpus_runs"] += 1
      n += 1
      if stats.violations:
        return
  for ri, (name, workload, s_list, nseeded) in \
      enumerate(prop.corpus_replays()):
    # the recorded schedule (exact only as long as the code under test has
    # the same pre-emption points), then fresh seeded schedules of the same
    # directed workload (robust against such drift)
    tries = [(list(s_list), None)]
    for k in range(nseeded):
      tries.append((None, derive_seed(base_seed, prop.id + "corpus-replay",
                                      ri, k)))
    for ti, (sl, sseed) in enumerate(tries):
      try:
        res = run_explicit(prop, workload, s_list=sl, s_seed=sseed)
      except HarnessError:
        raise
      except BaseException:
        raise HarnessError("corpus replay %s crashed in the harness:\n%s"
                           % (name, traceback.format_exc()))
      _account(stats, prop, known, workload, res, ["corpus-replay", ri, ti],
               keep_digest)
      stats.counters["corpus_replays"] += 1
      if stats.violations:
        return


def run_check(prop_name, tier, base_seed, workers=None, max_runs=None,
              wall=None, keep_digest=False, quiet=False, write=True):
  from . import props
  prop = props.load(prop_name)
  prop.setup()
  t0 = time.time()
  runs, wall_budget = prop.budget(tier)
  if max_runs is not None:
    runs = max_runs
  if wall is not None:
    wall_budget = wall
  workers = workers or int(os.environ.get("VERIF_WORKERS", "0")) or \
    min(16, os.cpu_count() or 1)
  known = load_known_findings(prop.id)
  total = BatchStats()

  run_corpus(prop, total, known, base_seed, keep_digest)

  if not total.violations and runs > 0:
    deadline = t0 + wall_budget
    chunk = max(10, min(400, runs // (workers * 8) or 1))
    tasks = []
    i = 0
    while i < runs:
      j = min(runs, i + chunk)
      tasks.append((base_seed, i, j, deadline, keep_digest, 97))
      i = j
    ctx = multiprocessing.get_context("fork")
    merged = {}
    pool = ProcessPoolExecutor(max_workers=workers, mp_context=ctx,
                               initializer=_worker_init,
                               initargs=(prop_name,))
    try:
      futs = [pool.submit(_worker_chunk, t) for t in tasks]
      for fut in as_completed(futs):
        try:
          start, st = fut.result()
        except HarnessError:
          raise
        except BaseException as exc:
          raise HarnessError("worker died: %r" % (exc,))
        merged[start] = st
        if st.violations:
          for other in futs:
            other.cancel()
          break
    finally:
      pool.shutdown(wait=True, cancel_futures=True)
    for start in sorted(merged):    # merge in run-index order
      total.merge(merged[start])

  exit_code = EXIT_PASS
  lines = []
  for kid, cnt in sorted(total.known_seen.items()):
    ent = [e for e in known if e["id"] == kid][0]
    lines.append("KNOWN-FINDING: property=%s %s (seen in %d runs)"
                 % (prop.id, ent.get("what", kid), cnt))
  nviol = 0
  if total.violations:
    nviol = len(total.violations)
    ordered = sorted(total.violations, key=lambda v: [str(x) for x in
                                                      v["origin"]])
    return _report_violations(prop, tier, base_seed, total, ordered, lines,
                              nviol, t0, write, quiet)

  wall_s = time.time() - t0
  if write:
    write_evidence(prop, tier, base_seed, total, wall_s, nviol)
  if not quiet:
    for ln in lines:
      print(ln)
    print("PASS property=%s tier=%s seed=%d runs=%d distinct_nontrivial=%d "
          "steps=%d wall=%.1fs"
          % (prop.id, tier, base_seed, total.runs, len(total.nontrivial),
             total.steps, wall_s))
  return exit_code, total


def _isolated_chunk(args):
  """ Fallback search: every run in its own forked child, so that no state
  of the code under test survives from one run to the next.  Returns the
  first violation of the chunk (as the dict _account builds) or None. """
  (base_seed, start, stop, deadline) = args
  import pickle
  prop = _WORKER_PROP
  known = load_known_findings(prop.id)
  for index in range(start, stop):
    if time.time() > deadline:
      return None
    rfd, wfd = os.pipe()
    pid = os.fork()
    if pid == 0:                                     # the child: one run
      try:
        os.close(rfd)
        out = None
        try:
          workload, res = run_from_seed(prop, base_seed, index, False)
          if res.violation is not None and \
             match_known(known, res.violation) is None:
            out = {"origin": ["seed", index], "workload": workload,
                   "s_log": list(res.s_log),
                   "violation": res.violation.as_dict(),
                   "digest": res.digest}
        except BaseException:
          out = None
        with os.fdopen(wfd, "wb") as f:
          pickle.dump(out, f)
      finally:
        os._exit(0)
    os.close(wfd)
    with os.fdopen(rfd, "rb") as f:
      data = f.read()
    os.waitpid(pid, 0)
    try:
      out = pickle.loads(data) if data else None
    except Exception:
      out = None
    if out is not None:
      return out
  return None


def _isolated_search(prop, base_seed, workers, budget_runs=40000, wall=150.0):
  deadline = time.time() + wall
  chunk = 50
  tasks = [(base_seed, i, min(budget_runs, i + chunk), deadline)
           for i in range(0, budget_runs, chunk)]
  ctx = multiprocessing.get_context("fork")
  pool = ProcessPoolExecutor(max_workers=workers, mp_context=ctx,
                             initializer=_worker_init, initargs=(prop.id,))
  found = []
  try:
    futs = [pool.submit(_isolated_chunk, t) for t in tasks]
    for fut in as_completed(futs):
      try:
        out = fut.result()
      except BaseException:
        continue
      if out is not None:
        found.append(out)
        for other in futs:
          other.cancel()
        break
  finally:
    pool.shutdown(wait=True, cancel_futures=True)
  return found


def _isolated_search_fresh(prop, base_seed):
  """ Runs _isolated_search in a fresh interpreter (this process has already
  executed runs itself - the corpus, shrinking attempts - so children forked
  from it would inherit whatever state those left behind). """
  import tempfile
  fd, out_path = tempfile.mkstemp(prefix="verif-iso-", suffix=".json")
  os.close(fd)
  try:
    env = dict(os.environ)
    env["VERIF_SEED"] = str(base_seed)
    cmd = [PYTHON, os.path.join(VERIF_DIR, "check"), prop.id,
           "--isolated-search", out_path]
    try:
      subprocess.run(cmd, env=env, stdout=subprocess.DEVNULL,
                     stderr=subprocess.DEVNULL, timeout=400)
    except subprocess.TimeoutExpired:
      return []
    try:
      with open(out_path) as f:
        return json.load(f)
    except Exception:
      return []
  finally:
    try:
      os.remove(out_path)
    except OSError:
      pass


def _report_violations(prop, tier, base_seed, total, ordered, lines, nviol,
                       t0, write, quiet, isolated_done=False):
  """ Minimises and validates the first violation that reproduces.  A run
  whose violation cannot be reproduced in fresh interpreters depended on
  state left behind by EARLIER runs of the same worker process (the code
  under test keeps state between calls): the next candidate is tried, and
  only when none reproduces is this the machinery's own fault. """
  last_exc = None
  for first in ordered[:4]:
    vkey = first["violation"]["class"] + "|" + first["violation"]["signature"]
    final_violation = None
    try:
      try:
        wl, s_log, final, spent = shrink(prop, first["workload"],
                                         first["s_log"], vkey)
        path = write_replay(prop, base_seed, first["origin"], wl, s_log,
                            final, {"shrink_executions": spent,
                                    "original_workload": first["workload"]
                                    if first["workload"] != wl else None})
        fresh = validate_replay_fresh(prop, path)
        same = (fresh.get("violation") or {}).get("signature") == \
          final.violation.signature and \
          fresh.get("event_digest") == final.digest
        if not same:
          raise HarnessError("replay %s does not reproduce in a fresh "
                             "interpreter: %r vs %r/%s"
                             % (path, fresh, final.violation, final.digest))
        final_violation = final.violation
      except HarnessError as exc:
        # Re-executions inside this process disagree with each other or with
        # a fresh interpreter: the code under test keeps state between runs
        # (module-level / class-level state).  The unshrunk run is then
        # replayed in fresh interpreters only: it is a violation if two fresh
        # replays agree with each other on a violation of the same class.
        final_violation = _fresh_only(prop, base_seed, first)
        if final_violation is None:
          raise exc
        path = final_violation.path
    except HarnessError as exc:
      last_exc = exc
      lines.append("NOTE: the violation of run %r could not be reproduced in "
                   "a fresh interpreter (state left by earlier runs of the "
                   "same process?); trying the next candidate"
                   % (first["origin"],))
      continue
    final = _FinalShim(final_violation)
    lines.append("VIOLATION property=%s replay=%s" % (prop.id, path))
    lines.append("  class=%s signature=%s" % (final.violation.klass,
                                              final.violation.signature))
    if final.violation.detail:
      lines.append("  detail: %s" % final.violation.detail[:2000])
    break
  else:
    if not isolated_done:
      # none of the candidates reproduces on its own: the code under test
      # keeps state from one run to the next.  Search again with every run
      # in a process of its own; what fails there reproduces by construction.
      lines.append("NOTE: searching again with one process per run")
      found = _isolated_search_fresh(prop, base_seed)
      if found:
        return _report_violations(prop, tier, base_seed, total, found, lines,
                                  nviol, t0, write, quiet, isolated_done=True)
    print("HARNESS-ERROR property=%s %s" % (prop.id, last_exc))
    return EXIT_HARNESS
  exit_code = EXIT_VIOLATION

  wall_s = time.time() - t0
  if write:
    write_evidence(prop, tier, base_seed, total, wall_s, nviol)
  if not quiet:
    for ln in lines:
      print(ln)
    print("%s property=%s tier=%s seed=%d runs=%d distinct_nontrivial=%d "
          "steps=%d wall=%.1fs"
          % ("PASS" if exit_code == 0 else "FAIL", prop.id, tier, base_seed,
             total.runs, len(total.nontrivial), total.steps, wall_s))
  return exit_code, total


def main(argv):
  import argparse
  ap = argparse.ArgumentParser(prog="check")
  ap.add_argument("prop")
  ap.add_argument("--tier", default=os.environ.get("VERIF_TIER") or "quick",
                  choices=["quick", "thorough"])
  ap.add_argument("--replay")
  ap.add_argument("--runs", type=int)
  ap.add_argument("--wall", type=float)
  ap.add_argument("--workers", type=int)
  ap.add_argument("--no-evidence", action="store_true")
  ap.add_argument("--digests", help="write per-run event digests (self-test)")
  ap.add_argument("--isolated-search", help="(internal) one process per run; "
                  "writes the first violation found to this file")
  args = ap.parse_args(argv)
  try:
    base_seed = int(os.environ.get("VERIF_SEED", "0") or 0)
  except ValueError:
    base_seed = stable_hash(os.environ["VERIF_SEED"])
  prop_name = args.prop.upper()
  try:
    import_repo()
    if args.isolated_search:
      from . import props
      prop = props.load(prop_name)
      prop.setup()
      found = _isolated_search(prop, base_seed, min(16, os.cpu_count() or 1))
      with open(args.isolated_search, "w") as f:
        json.dump(found, f)
      return EXIT_PASS
    if args.replay:
      from . import props
      prop = props.load(prop_name)
      prop.setup()
      doc, res = replay_file(prop, args.replay)
      if res.violation is not None:
        known = load_known_findings(prop.id)
        ent = match_known(known, res.violation)
        if ent is not None:
          print("KNOWN-FINDING: property=%s %s" % (prop.id, ent.get("what")))
          return EXIT_PASS
        print("VIOLATION property=%s replay=%s" % (prop.id, args.replay))
        print("  class=%s signature=%s" % (res.violation.klass,
                                           res.violation.signature))
        if res.violation.detail:
          print("  detail: %s" % res.violation.detail[:2000])
        return EXIT_VIOLATION
      print("PASS property=%s replay held" % prop.id)
      return EXIT_PASS
    out = run_check(prop_name, args.tier, base_seed, workers=args.workers,
                    max_runs=args.runs, wall=args.wall,
                    write=not args.no_evidence and not args.digests,
                    keep_digest=bool(args.digests))
    if args.digests and isinstance(out, tuple):
      st = out[1]
      with open(args.digests, "w") as f:
        json.dump({"digests": sorted(st.per_run_digest,
                                     key=lambda p: [str(x) for x in p[0]]),
                   "runs": st.runs, "steps": st.steps,
                   "counters": dict(sorted(st.counters.items())),
                   "nontrivial": len(st.nontrivial),
                   "states": len(st.states)}, f)
    if isinstance(out, tuple):
      return out[0]
    return out
  except HarnessError as exc:
    print("HARNESS-ERROR property=%s %s" % (prop_name, exc))
    return EXIT_HARNESS
  except BaseException as exc:
    if isinstance(exc, (SystemExit, KeyboardInterrupt)):
      raise
    print("HARNESS-ERROR property=%s unexpected %s:\n%s"
          % (prop_name, type(exc).__name__, traceback.format_exc()))
    return EXIT_HARNESS
