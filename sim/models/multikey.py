# -*- coding: utf-8 -*-
"""
Reference models for C15: an ordered key-group model of MultiKeyDict and the
default/attribute bookkeeping of StrategyDict.  Everything is by equality
(``==``), exactly as the statement groups "keys holding equal values".
"""


def stable_repr(v):
  """ repr without addresses (plain functions carry a _tag). """
  tag = getattr(v, "_tag", None)
  return tag if tag is not None else repr(v)


def dedupe_keep_last(keys):
  out = []
  for k in reversed(keys):
    if not any(k == o for o in out):
      out.append(k)
  out.reverse()
  return tuple(out)


class MultiKeyModel(object):
  """ groups: list of [value, keys tuple] in no particular order. """

  def __init__(self):
    self.groups = []

  # -- helpers
  def _group_of_key(self, key):
    for g in self.groups:
      if any(key == k for k in g[1]):
        return g
    return None

  def _group_of_value(self, value):
    for g in self.groups:
      if g[0] == value:
        return g
    return None

  # -- lookups (raise KeyError like the real thing)
  def get(self, key):
    g = self._group_of_key(key)
    if g is None:
      raise KeyError(key)
    return g[0]

  def get_tuple(self, keys):
    for g in self.groups:
      if g[1] == keys:
        return g[0]
    raise KeyError(keys)

  def key2keys(self, key):
    g = self._group_of_key(key)
    if g is None:
      raise KeyError(key)
    return g[1]

  def value2keys(self, value):
    g = self._group_of_value(value)
    return tuple() if g is None else g[1]

  def __len__(self):
    return len(self.groups)

  def values(self):
    return [g[0] for g in self.groups]

  def key_tuples(self):
    return [g[1] for g in self.groups]

  def all_keys(self):
    return [k for g in self.groups for k in g[1]]

  # -- updates
  def delete(self, key):
    g = self._group_of_key(key)
    if g is None:
      raise KeyError(key)
    rest = tuple(k for k in g[1] if not (k == key))
    if rest:
      g[1] = rest
    else:
      self.groups.remove(g)

  def assign(self, key, value):
    """ Returns a set of probe names that fired. """
    probes = set()
    new = key if isinstance(key, tuple) else (key,)
    if len(set(map(repr, new))) < len(new) or \
       len(dedupe_keep_last(new)) < len(new):
      probes.add("tuple-with-duplicate-keys")
    old = self._group_of_value(value)
    full = (old[1] if old is not None else tuple()) + tuple(new)
    if old is not None:
      probes.add("merge-by-equal-value")
    full = dedupe_keep_last(full)
    for k in full:
      g = self._group_of_key(k)
      if g is not None:
        if g is not old:
          probes.add("key-moved-between-groups")
          if len(g[1]) == 1:
            probes.add("group-emptied")
        self.delete(k)
    self.groups.append([value, full])
    return probes

  def canon(self):
    return tuple(sorted((stable_repr(g[0]), tuple(repr(k) for k in g[1]))
                        for g in self.groups))


class StrategyModel(MultiKeyModel):
  """ Adds the default bookkeeping; names are strings. """
  NO_DEFAULT = object()

  def __init__(self):
    super(StrategyModel, self).__init__()
    self.default = self.NO_DEFAULT
    self.lost_once = False

  def s_delete(self, name):
    probes = set()
    keys = self.key2keys(name)      # KeyError when missing
    value = self.get(name)
    self.delete(name)
    if len(keys) == 1 and self.default is not self.NO_DEFAULT and \
       value == self.default:
      self.default = self.NO_DEFAULT
      self.lost_once = True
      probes.add("default-lost")
    return probes

  def s_assign(self, names, value):
    probes = set()
    keys = names if isinstance(names, tuple) else (names,)
    for k in keys:
      try:
        probes |= self.s_delete(k)
      except KeyError:
        pass
    probes |= self.assign(keys, value)
    if self.default is self.NO_DEFAULT:
      if self.lost_once:
        probes.add("default-rechosen")
      self.default = value
    return probes

  def canon(self):
    base = super(StrategyModel, self).canon()
    d = None if self.default is self.NO_DEFAULT else stable_repr(self.default)
    return (base, d)
