# -*- coding: utf-8 -*-
"""
Event-list reference model of Streamix (C16), exact rational time.

T_i = d_0 + ... + d_i (exact value of the numbers given).  Event i starts at
the first sample n with n + 1/2 >= T_i that is computed after it was added
("to the nearest sample, never earlier than the moment it was added").  When
T_i is within TOL of a half sample either neighbour is accepted: next()
returns every alternative and the caller keeps those the real mixer matches.
"""
from fractions import Fraction

# float error of the real clock is far below this: counts stay below ~1e4
# (ulp 2e-12) over at most a few thousand additions
TOL = Fraction(1, 10 ** 7)
HALF = Fraction(1, 2)
END = object()


class MixState(object):
  __slots__ = ("keep", "zero", "n", "T", "pending", "playing", "ended",
               "starts", "nevents")

  def __init__(self, keep, zero):
    self.keep, self.zero = keep, zero
    self.n = 0                 # samples produced so far
    self.T = Fraction(0)
    self.pending = []          # (T_i, event id, values)
    self.playing = []          # [event id, values, index]
    self.ended = False
    self.starts = {}           # event id -> start sample
    self.nevents = 0

  def key(self):
    """ Canonical form: two alternatives with the same key are the same. """
    return (self.n, self.keep, self.ended, self.T,
            tuple((T, eid) for T, eid, _ in self.pending),
            tuple((eid, idx) for eid, _, idx in self.playing))

  def clone(self):
    st = MixState(self.keep, self.zero)
    st.n, st.T, st.ended, st.nevents = self.n, self.T, self.ended, \
      self.nevents
    st.pending = list(self.pending)
    st.playing = [list(p) for p in self.playing]
    st.starts = dict(self.starts)
    return st

  def add(self, delta, values):
    """ Mirrors Streamix.add; raises ValueError for a negative delta. """
    if delta < 0:
      raise ValueError("negative delta")
    self.T += Fraction(delta)
    self.pending.append((self.T, self.nevents, values))
    self.nevents += 1

  def _start_alternatives(self):
    out = []
    work = [self]
    while work:
      st = work.pop()
      if st.pending:
        T = st.pending[0][0]
        limit = st.n + HALF
        if T <= limit - TOL:
          st._start_head()
          work.append(st)
          continue
        if T < limit + TOL:          # half-sample tie: both are "nearest"
          alt = st.clone()
          alt._start_head()
          work.append(alt)
      out.append(st)
    return out

  def _start_head(self):
    T, eid, values = self.pending.pop(0)
    self.playing.append([eid, values, 0])
    self.starts[eid] = self.n

  def next(self, add_fn, inflight=()):
    """
    All alternatives for the next sample: list of (output or END, state).
    ``add_fn(acc, item)`` adds an item to the running sum (exact types).
    ``inflight``: (delta, values) of add() calls made *while this sample was
    being computed* (by an event that schedules its successor): they are
    pending from the next sample on and count for the end test of this one.
    """
    results = []
    for st in self._start_alternatives():
      data = st.zero
      alive = []
      for p in st.playing:
        eid, values, idx = p
        if idx < len(values):
          data = add_fn(data, values[idx])
          p[2] = idx + 1
          alive.append(p)
      st.playing = alive
      for delta, values in inflight:
        st.add(delta, values)
      if not (st.keep or st.playing or st.pending):
        st.ended = True
        results.append((END, st))
      else:
        st.n += 1
        results.append((data, st))
    return results
