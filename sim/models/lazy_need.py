# -*- coding: utf-8 -*-
"""
Minimal-read reference generators for C02: one tiny, obviously lazy generator
per stage family, pulling exactly what that family needs to define its next
output and not one item more.  They run over counting model sources carrying
the same values as the real sources and are driven by the same demand
schedule; the invariant is delivered_real(source) <= delivered_model(source).

Leniency that is part of the specification of these models:
  * multi-reader sample-wise stages attempt EVERY reader at each step, so at
    the terminal attempt each reader may have delivered one extra item;
  * itertools semantics that are Python's own (islice running to ``stop`` at
    its end, zip/map order) are mirrored, not judged.
"""
from fractions import Fraction

END = object()
SEEN_END = [False]      # some reference stage or source reached its end


FUEL = [0]


class ModelStarved(BaseException):
  """ A reference stage spins without reading (cycle / keep-mixer feeding a
  selector that never matches): nothing can be demanded of the real one. """


def refuel(n=20000):
  FUEL[0] = n


def burn():
  FUEL[0] -= 1
  if FUEL[0] < 0:
    raise ModelStarved()


def flagged(gen):
  """ Marks the moment a reference stage runs out. """
  for v in gen:
    yield v
  SEEN_END[0] = True


def nxt(it):
  try:
    return next(it)
  except StopIteration:
    return END


# ----------------------------------------------------------------- sample-wise
def m_each(ins, f=None):
  """ One read per output. """
  for v in ins[0]:
    # upstream stages that are not value-exact hand down None
    yield f(v) if (f is not None and v is not None) else None


def m_lockstep(ins, f=None):
  """ One read of every reader per output; all are attempted each step. """
  its = [iter(i) for i in ins]
  while True:
    vals = [nxt(i) for i in its]
    if any(v is END for v in vals):
      return
    yield f(*vals) if f is not None else None


def m_lockstep_fixed(ins, n_fixed, f=None):
  """ Lockstep with a non-source operand of n_fixed items (a list). """
  its = [iter(i) for i in ins]
  count = 0
  while True:
    vals = [nxt(i) for i in its]
    if count >= n_fixed or any(v is END for v in vals):
      return
    count += 1
    yield None


def m_longest(ins):
  its = [iter(i) for i in ins]
  alive = [True] * len(its)
  while True:
    got = False
    for j, i in enumerate(its):
      if alive[j]:
        if nxt(i) is END:
          alive[j] = False
        else:
          got = True
    if not got:
      return
    yield None


def m_chain(ins, exact=True):
  for i in ins:
    for v in i:
      yield v if exact else None


def m_limit(ins, n):
  if n <= 0:
    return
  count = 0
  for v in ins[0]:
    yield v
    count += 1
    if count >= n:
      return


def m_skip(ins, n):
  i = iter(ins[0])
  for _ in range(n):
    if nxt(i) is END:
      return
  for v in i:
    yield v


def m_zero_pad(ins, left, right):
  for _ in range(left):
    yield 0
  for v in ins[0]:
    yield v
  for _ in range(right):
    yield 0


def m_cycle(ins):
  saved = []
  for v in ins[0]:
    saved.append(v)
    yield v
  while saved:
    for v in saved:
      burn()
      yield v


def m_pairwise(ins):
  i = iter(ins[0])
  a = nxt(i)
  if a is END:
    return
  for b in i:
    yield (a, b)
    a = b


def m_batched(ins, n):
  i = iter(ins[0])
  while True:
    batch = []
    for _ in range(n):
      v = nxt(i)
      if v is END:
        break
      batch.append(v)
    if not batch:
      return
    yield tuple(batch)
    if len(batch) < n:
      return


# ------------------------------------------------------------------- selectors
def m_filter(ins, pred):
  for v in ins[0]:
    if pred(v):
      yield v


def m_takewhile(ins, pred):
  for v in ins[0]:
    if not pred(v):
      return
    yield v


def m_dropwhile(ins, pred):
  i = iter(ins[0])
  for v in i:
    if not pred(v):
      yield v
      break
  for v in i:
    yield v


def m_compress(ins):
  data, sel = iter(ins[0]), iter(ins[1])
  while True:
    d, s = nxt(data), nxt(sel)
    if d is END or s is END:
      return
    if s:
      yield d


def m_groupby(ins, key):
  i = iter(ins[0])
  v = nxt(i)
  while v is not END:
    k = key(v)
    yield k
    # the next group is reached by running through the rest of this one
    v = nxt(i)
    while v is not END and key(v) == k:
      v = nxt(i)


def m_islice(ins, start, stop, step):
  i = iter(ins[0])
  pos = 0
  target = start
  while stop is None or target < stop:
    while pos <= target:
      v = nxt(i)
      if v is END:
        return
      pos += 1
    yield v
    target += step
  # Python's islice runs the iterator up to ``stop`` when it ends
  while stop is not None and pos < stop:
    if nxt(i) is END:
      return
    pos += 1


# ---------------------------------------------------------------------- blocks
def m_blocks(ins, size, hop):
  """ (j-1)*hop + size items for j blocks. """
  buf = []
  fresh = 0
  skip = 0
  for v in ins[0]:
    if skip > 0:
      skip -= 1
      continue
    buf.append(v)
    fresh += 1
    if len(buf) == size:
      yield list(buf)
      fresh = 0
      if hop <= size:
        buf = buf[hop:]
      else:
        buf = []
        skip = hop - size
  if fresh:
    yield buf + [0] * (size - len(buf))


def m_overlap_add(ins, size, hop):
  """ hop outputs per block, then the tail of the last block. """
  got = False
  for blk in ins[0]:
    got = True
    for _ in range(hop):
      yield None
  if got or True:
    for _ in range(max(size - hop, 0)):
      yield None


def m_block_map(ins):
  for blk in ins[0]:
    yield None


# ----------------------------------------------------------------------- mixer
def m_mixer(ins, starts, keep=False):
  """ Event i delivers one item per sample from its start sample on. """
  its = [iter(i) for i in ins]
  alive = [True] * len(its)
  n = 0
  while True:
    for j, i in enumerate(its):
      if alive[j] and n >= starts[j]:
        if nxt(i) is END:
          alive[j] = False
    if not keep and not any(alive[j] for j in range(len(its))):
      return
    burn()
    yield None
    n += 1


# -------------------------------------------------------------------- resample
def m_resample(ins, old, new, order):
  """
  Documented look-ahead: order+1 neighbouring samples, (order+1)/2 of them
  ahead of the current position.
  """
  i = iter(ins[0])
  threshold = Fraction(order + 1, 2)
  step = Fraction(old) / Fraction(new)
  first = int(threshold + Fraction(1, 2))          # rint, half away
  if threshold % 1 == Fraction(1, 2):
    first = int(threshold) + 1
  for _ in range(first):
    if nxt(i) is END:
      break
  idx = Fraction(int(threshold))
  while True:
    yield None
    idx += step
    while idx > threshold:
      if nxt(i) is END:
        return
      idx -= 1


# --------------------------------------------------------- endpoints / fan-out
class MTee(object):
  """ Model of a tee: consumers share one upstream, pulled on demand. """

  def __init__(self, upstream):
    self.up = iter(upstream)
    self.buf = []
    self.done = False

  def get(self, i):
    while len(self.buf) <= i and not self.done:
      v = nxt(self.up)
      if v is END:
        self.done = True
      else:
        self.buf.append(v)
    return self.buf[i] if i < len(self.buf) else END

  def branch(self, pos=0):
    return MTeeBranch(self, pos)


class MTeeBranch(object):
  def __init__(self, tee, pos):
    self.tee, self.pos = tee, pos

  def __iter__(self):
    return self

  def __next__(self):
    v = self.tee.get(self.pos)
    if v is END:
      raise StopIteration
    self.pos += 1
    return v


class MEnd(object):
  """ A model endpoint that understands next / take(k) / peek(k). """

  def __init__(self, gen):
    self.it = iter(gen)
    self.buf = []
    self.ended = False

  def _pull(self):
    v = nxt(self.it)
    if v is END:
      self.ended = True
    return v

  def take(self, k):
    n = 0
    while n < k:
      if self.buf:
        self.buf.pop(0)
      else:
        if self._pull() is END:
          break
      n += 1
    return n

  def peek(self, k):
    while len(self.buf) < k:
      v = self._pull()
      if v is END:
        break
      self.buf.append(v)
    return min(k, len(self.buf))


def m_attack(ins, len_a, len_d):
  """ attack(a, d, sustain stream): the first sustain value defines the decay
  slope (read with the first output), the rest is one read per sample. """
  i = iter(ins[0])
  if nxt(i) is END:
    return
  for _ in range(len_a + len_d):
    yield None
  for v in i:
    yield None


def m_resample_tv(ins, new, order):
  """ resample with a time-varying ``old`` (a Stream): one step item per
  output sample, and the same documented look-ahead on the signal. """
  sig, steps = iter(ins[0]), iter(ins[1])
  threshold = Fraction(order + 1, 2)
  first = int(threshold) + 1 if threshold % 1 == Fraction(1, 2) \
    else int(threshold)
  for _ in range(first):
    if nxt(sig) is END:
      break
  idx = Fraction(int(threshold))
  while True:
    yield None
    st = nxt(steps)
    if st is END:
      return
    idx += Fraction(st) / Fraction(new)
    while idx > threshold:
      if nxt(sig) is END:
        return
      idx -= 1
