# -*- coding: utf-8 -*-
"""
List reference model for C03: immutable lazy sequences with index access.
No generators inside (a Starved exception must not kill model state).
"""


class End(Exception):
  """ Index beyond the end of a finite sequence. """


class Starved(Exception):
  """ The answer would need more source items than the fuel allows. """


FUEL = [0]


def refuel(n=400):
  FUEL[0] = n


def burn(k=1):
  FUEL[0] -= k
  if FUEL[0] < 0:
    raise Starved()


class Seq(object):
  endless = False

  def get(self, i):
    raise NotImplementedError

  def length(self):
    """ Number of items; burns fuel; Starved when endless or too long. """
    n = getattr(self, "_len", None)
    if n is not None:
      return n
    i = getattr(self, "_len_lo", 0)
    while True:
      burn()
      try:
        self.get(i)
      except End:
        self._len = i
        return i
      i += 1
      self._len_lo = i


class ListSeq(Seq):
  def __init__(self, values):
    self.values = list(values)
    self._len = len(self.values)

  def get(self, i):
    if i >= len(self.values):
      raise End()
    return self.values[i]


class FnSeq(Seq):
  """ value_fn(i) for i < length (None = endless). """

  def __init__(self, value_fn, length):
    self.value_fn, self.n = value_fn, length
    if length is not None:
      self._len = length
    else:
      self.endless = True

  def get(self, i):
    if self.n is not None and i >= self.n:
      raise End()
    return self.value_fn(i)

  def length(self):
    if self.n is None:
      raise Starved()
    return self.n


class MapSeq(Seq):
  def __init__(self, f, p):
    self.f, self.p = f, p

  def get(self, i):
    return self.f(self.p.get(i))


class DropSeq(Seq):
  """
  Evaluates the dropped items one by one before answering, as any real
  skipping iterator must (so the fuel accounting never under-estimates what
  the implementation needs).
  """

  def __init__(self, p, k):
    self.p, self.k = p, k
    self.checked = 0       # parent items 0..checked-1 are known to exist
    self.ended = False

  def get(self, i):
    want = self.k + i
    while self.checked <= want:
      if self.ended:
        raise End()
      try:
        self.p.get(self.checked)
      except End:
        self.ended = True
        raise
      self.checked += 1
    return self.p.get(want)


class LimitSeq(Seq):
  def __init__(self, p, n):
    self.p, self.n = p, n

  def get(self, i):
    if i >= self.n:
      raise End()
    return self.p.get(i)


class AppendSeq(Seq):
  def __init__(self, a, b):
    self.a, self.b = a, b

  def get(self, i):
    try:
      return self.a.get(i)
    except End:
      return self.b.get(i - self.a.length())


class FilterSeq(Seq):
  def __init__(self, pred, p):
    self.pred, self.p = pred, p
    self.hits = []       # parent indices accepted so far
    self.next_j = 0
    self.done = False

  def get(self, i):
    while len(self.hits) <= i:
      if self.done:
        raise End()
      burn()
      try:
        v = self.p.get(self.next_j)
      except End:
        self.done = True
        raise
      if self.pred(v):
        self.hits.append(self.next_j)
      self.next_j += 1
    return self.p.get(self.hits[i])


class HandleModel(object):
  """ A live Stream: a sequence and how much of it was consumed. """

  def __init__(self, seq, pos=0):
    self.seq, self.pos = seq, pos

  def rest(self):
    return DropSeq(self.seq, self.pos) if self.pos else self.seq

  def first(self, n):
    """ The first n remaining items (fewer when fewer remain). """
    out = []
    for i in range(n):
      try:
        out.append(self.seq.get(self.pos + i))
      except End:
        break
    return out

  def remaining(self):
    """ Remaining length (burns fuel, Starved when endless). """
    return max(0, self.seq.length() - self.pos)

  def rebase(self, seq):
    self.seq, self.pos = seq, 0

  def clone(self):
    return HandleModel(self.seq, self.pos)
