# -*- coding: utf-8 -*-
"""
Fake PyAudio backend (``pyaudio`` and ``_portaudio`` modules) for engine A.
Every call is a scheduler yield point, may be stalled by the fault injector,
and is recorded in the device history of the current run's World.
"""
import struct
import sys
import types

from . import threads


class World(object):
  """ Device-side state and history of one run. """

  def __init__(self, sched, stall_fn=None):
    self.sched = sched
    self.stall_fn = stall_fn          # (kind) -> steps to stall
    self.history = []                 # (seq, kind, stream id, payload)
    self.streams = []
    self.managers = []
    self.write_fault = None

  def record(self, kind, sid, payload=None):
    self.history.append((len(self.history), kind, sid, payload))
    if self.sched is not None:
      self.sched.log("dev %s s%s" % (kind, sid))

  def device_call(self, kind):
    s = self.sched
    if s is None:
      return                 # used without a scheduler (engine B, C02)
    if s is threads.CURRENT and not s.inert:
      s.yield_point("dev." + kind)
      if self.stall_fn is not None and not s.stalls_off:
        k = self.stall_fn(kind)
        if k:
          s.count("fault.device-stall")
          if k >= 1000:
            s.count("fault.device-stall-long")
          s.sleep(k, "dev.stall")
    elif s.aborting:
      raise threads.SimAbort()


WORLD = None


def set_world(w):
  global WORLD
  WORLD = w


class FakePaStream(object):
  def __init__(self, manager, kwargs):
    self.world = manager.world
    self.manager = manager
    self.kwargs = dict(kwargs)
    self.sid = len(self.world.streams)
    self.world.streams.append(self)
    self._stream = self           # the handle given to write_stream
    self.closed = 0
    self.stopped = False
    self.writes = []              # (bytes, nframes)
    self.reads = 0
    self.is_input = bool(kwargs.get("input"))
    self.write_after_close = 0
    self.write_while_stopped = 0

  def close(self):
    self.world.device_call("close")
    self.closed += 1
    self.manager._streams.discard(self)
    self.world.record("close", self.sid)

  def stop_stream(self):
    self.world.device_call("stop_stream")
    self.stopped = True
    self.world.record("stop", self.sid)

  def start_stream(self):
    self.world.device_call("start_stream")
    self.stopped = False
    self.world.record("start", self.sid)

  def read(self, nframes, *args, **kwargs):
    self.world.device_call("read")
    fmt = {1: "f", 2: "i", 8: "h", 16: "b", 32: "B"}[self.kwargs["format"]]
    ch = self.kwargs.get("channels", 1)
    n = nframes * ch
    base = self.reads * n
    self.reads += 1
    self.world.record("read", self.sid, nframes)
    vals = [(base + i) % 100 for i in range(n)]
    if fmt == "f":
      vals = [float(v) for v in vals]
    return struct.pack("%d%s" % (n, fmt), *vals)

  def write(self, data, nframes=None, *args, **kwargs):
    fake_write_stream(self, data, nframes, False)


def fake_write_stream(stream, data, nframes, exc_on_underflow=False):
  w = stream.world
  w.device_call("write")
  if stream.stopped and not stream.closed:
    # PortAudio refuses to write to a stopped stream (paStreamIsStopped)
    stream.write_while_stopped += 1
    w.record("write-refused", stream.sid)
    raise IOError(-9983, "Stream is stopped")
  if stream.closed:
    stream.write_after_close += 1
  stream.writes.append((bytes(data), nframes))
  w.record("write", stream.sid, len(stream.writes) - 1)
  if w.write_fault is not None:
    w.write_fault(stream)


class FakePyAudio(object):
  def __init__(self):
    self.world = WORLD
    if self.world is None:
      raise RuntimeError("fake PyAudio used outside a simulated run")
    self._streams = set()
    self.terminated = 0
    self.mid = len(self.world.managers)
    self.world.managers.append(self)

  def open(self, *args, **kwargs):
    if kwargs.get("reject_me"):
      raise ValueError("backend rejects this stream configuration")
    self.world.device_call("open")
    st = FakePaStream(self, kwargs)
    if getattr(self.world, "registry", "faithful") != "empty":
      # (the private registry of PyAudio; a compatible backend may as well
      # keep its streams elsewhere and leave this one empty)
      self._streams.add(st)
    self.world.record("open", st.sid, {k: kwargs[k] for k in sorted(kwargs)})
    return st

  def terminate(self):
    self.world.device_call("terminate")
    self.terminated += 1
    self.world.record("terminate", "m%d" % self.mid,
                      {"open_streams": len(self._streams)})

  def get_host_api_count(self):
    return 2

  def get_host_api_info_by_index(self, idx):
    return [{"name": "ALSA", "defaultInputDevice": 0,
             "defaultOutputDevice": 1},
            {"name": "JACK Audio Connection Kit", "defaultInputDevice": 2,
             "defaultOutputDevice": 3}][idx]


def install_fake_modules():
  pa = types.ModuleType("pyaudio")
  pa.PyAudio = FakePyAudio
  pa.paFloat32, pa.paInt32, pa.paInt16, pa.paInt8, pa.paUInt8 = 1, 2, 8, 16, 32
  pa.__verif_fake__ = True
  po = types.ModuleType("_portaudio")
  po.write_stream = fake_write_stream
  po.__verif_fake__ = True
  sys.modules["pyaudio"] = pa
  sys.modules["_portaudio"] = po
  return pa, po
