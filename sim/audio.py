# -*- coding: utf-8 -*-
"""
Seams between engine A and audiolazy.lazy_io - no edit of /repo is needed:

  lazy_io.threading        -> shim with SimLock / SimEvent
  AudioThread.start/join/is_alive -> scheduler-controlled
  sys.modules[pyaudio/_portaudio] -> fake backend
  AudioIO.__del__          -> inert (a finalizer must not run a second close
                              in the middle of another run)
"""
from . import backend, threads
from .kernel import HarnessError

_INSTALLED = {}


def install():
  if _INSTALLED:
    return _INSTALLED["lio"]
  backend.install_fake_modules()
  import audiolazy.lazy_io as lio
  shim = threads.make_threading_shim()
  lio.threading = shim
  # any other module of the package that reaches threading primitives (none
  # on the pinned tree) gets simulator-owned ones too: a real lock taken by
  # a simulated thread would block the baton holder outside the simulator
  import sys as _sys
  for mname, mod in sorted(_sys.modules.items()):
    if mod is not None and (mname == "audiolazy" or
                            mname.startswith("audiolazy.")):
      threads.shim_module_globals(mod, shim)
  AT = lio.AudioThread
  orig_run = AT.run

  def sim_start(self):
    sched = threads.CURRENT
    if sched is None or sched.inert:
      raise HarnessError("AudioThread.start outside a simulated run")
    n = sum(1 for t in sched.threads if t.role.startswith("player"))
    st = sched.spawn("player%d" % n, lambda: orig_run(self))
    self._sim_thread = st
    hook = getattr(sched, "on_player_start", None)
    if hook is not None:
      hook(self, st)
    sched.yield_point("thread.start")

  def sim_join(self, timeout=None):
    sched = threads.CURRENT
    st = getattr(self, "_sim_thread", None)
    if sched is None or st is None or sched.inert:
      if sched is not None and sched.aborting:
        raise threads.SimAbort()
      return
    sched.join(st)

  def sim_is_alive(self):
    st = getattr(self, "_sim_thread", None)
    # the player object is a real threading.Thread: what its own is_alive()
    # consults besides the thread state (CPython: the private _is_stopped
    # flag) is honoured, so code that disturbs that state is not masked by
    # the stub.  On an undisturbed object the flag turns true only after
    # the simulated thread has finished, so this never changes an answer.
    if getattr(self, "_is_stopped", False) is True:
      return False
    return st is not None and st.state != "finished"

  orig_stop = AT.stop

  def sim_stop(self):
    # transparent: only notes where in the device history stop() returned
    # (the promptness oracle counts the chunks written after that point)
    ret = orig_stop(self)
    w = backend.WORLD
    if w is not None and getattr(self, "_stop_returned_at", None) is None:
      self._stop_returned_at = len(w.history)
    return ret

  AT.stop = sim_stop
  AT.start = sim_start
  AT.join = sim_join
  AT.is_alive = sim_is_alive
  lio.AudioIO.__del__ = lambda self: None
  _INSTALLED["lio"] = lio
  _INSTALLED["orig_run"] = orig_run
  return lio


def self_check(sched_factory):
  """ The seams took?  Otherwise the run would silently test nothing. """
  lio = install()
  import sys
  if not getattr(sys.modules.get("pyaudio"), "__verif_fake__", False):
    raise HarnessError("pyaudio seam lost")
  sched = sched_factory()
  world = backend.World(sched)
  backend.set_world(world)
  box = {}

  def main():
    # only the seams are inspected: nothing here may depend on behaviour the
    # property is about (a broken close() must not look like a lost seam)
    aio = lio.AudioIO()
    th = lio.AudioThread(aio, [0.0, 0.0], chunk_size=1)
    # every synchronisation primitive found on the two objects (whatever the
    # attributes are called) must be a simulated one
    import threading as real_threading
    real_kinds = (type(real_threading.Lock()), type(real_threading.RLock()),
                  real_threading.Event, real_threading.Condition,
                  real_threading.Semaphore)
    prims = {}
    for owner, obj in (("aio", aio), ("thread", th)):
      for attr, val in sorted(vars(obj).items()):
        if attr.startswith("_") and owner == "thread":
          continue          # threading.Thread's own private state
        if isinstance(val, real_kinds) or \
           type(val).__name__.startswith("Sim"):
          prims["%s.%s" % (owner, attr)] = type(val).__name__
    box["prims"] = prims
    box["pa"] = type(aio._pa).__name__
    box["write"] = getattr(th.write_stream, "__name__", "?")
    box["start"] = lio.AudioThread.start.__name__
    box["join"] = lio.AudioThread.join.__name__
    aio.finished = True

  try:
    sched.run(main)
  finally:
    backend.set_world(None)
  want = {"pa": "FakePyAudio", "write": "fake_write_stream",
          "start": "sim_start", "join": "sim_join"}
  # whatever synchronisation primitives the code under test chooses for
  # these attributes, they must be simulator-owned ones (the kind is the
  # code's own business: a change from an Event to a Lock is not a lost seam)
  prims = box.pop("prims", {})
  sim_owned = len(prims) >= 2 and all(v.startswith("Sim")
                                      for v in prims.values())
  if not sim_owned or any(box.get(k) != v for k, v in want.items()):
    raise HarnessError("seam self-check failed: %r %r" % (box, prims))
