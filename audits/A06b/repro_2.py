#!/usr/bin/env python
"""
C06 / finding 2: ZFilter substitution ``filt(other_filter)`` uses the argument
once for every term of ``filt`` without a tee copy, so a Stream coefficient of
the argument is read several times per output sample.

Exit status 1 when the violation shows, 0 otherwise.
"""
import sys, warnings
warnings.simplefilter("ignore")
from audiolazy import z, Stream


class Counting(object):
  def __init__(self, data):
    self.data, self.n = list(data), 0
  def __iter__(self):
    return self
  def __next__(self):
    if self.n >= len(self.data):
      raise StopIteration
    self.n += 1
    return self.data[self.n - 1]
  next = __next__


def ref(b, a, x, zero=0.):
  at = lambda c, n: c[n] if isinstance(c, list) else c
  y = []
  for n in range(len(x)):
    try:
      acc = sum(at(c, n) * (x[n - k] if n >= k else zero) for k, c in b.items())
      acc -= sum(at(c, n) * (y[n - k] if n >= k else zero)
                 for k, c in a.items() if k)
      y.append(acc / at(a.get(0, 1), n))
    except IndexError:
      break
  return y


def close(u, v):
  return len(u) == len(v) and all(abs(p - q) <= 1e-9 * max(1, abs(p), abs(q))
                                  for p, q in zip(u, v))

x = [1., 2., -3., 4., .5, 5., 7., -1.]
s = [.5, -.25, .1, 2., 1., -1., .3, .2]
failed = False

# H(z) = 1 + z^-1 + z^-2 evaluated at z -> (s[n] z)^-1 ... that is, the
# documented substitution filt(g) with g = s * z, a scaling of "z" by a Stream:
#   H(g) = 1 + s^-1 z^-1 + s^-2 z^-2           (element by element)
src = Counting(s)
filt = 1 + z ** -1 + z ** -2
g = filt(Stream(src) * z)
out = g(x)
first2 = out.take(2)
reads = src.n
got = first2 + list(out)
expected = ref({0: 1, 1: [1 / v for v in s], 2: [v ** -2 for v in s]}, {0: 1}, x)
ok = close(got, expected) and reads == 2
failed |= not ok
print("FIR 1 + z^-1 + z^-2 with z -> s[n] * z")
print("   reads of s after 2 output samples:", reads, "(required: 2)")
print("   output  :", got)
print("   expected:", expected)
print("   ->", "ok" if ok else "VIOLATION")

# One use in the numerator and one in the denominator is already enough
src = Counting(s)
filt = (1 + z ** -1) / (1 - .5 * z ** -1)
g = filt(Stream(src) * z)
out = g(x)
first2 = out.take(2)
reads = src.n
got = first2 + list(out)
expected = ref({0: 1, 1: [1 / v for v in s]}, {0: 1, 1: [-.5 / v for v in s]}, x)
ok = close(got, expected) and reads == 2
failed |= not ok
print("IIR (1 + z^-1) / (1 - .5 z^-1) with z -> s[n] * z")
print("   reads of s after 2 output samples:", reads, "(required: 2)")
print("   output  :", got)
print("   expected:", expected)
print("   ->", "ok" if ok else "VIOLATION")

sys.exit(1 if failed else 0)
