#!/usr/bin/env python
"""
C06 / finding 4: ParallelFilter.numpoly with a nested container as a branch.

``reduce(operator.add, self)`` adds the branches with ZFilter.__add__, which
takes anything that is not a ZFilter for "probably a number": the nested
CascadeFilter (a list!) becomes ONE coefficient of the numerator, and the
filter call then treats that list as a coefficient *stream*.

Exit status 1 when the violation shows, 0 otherwise.
"""
import sys, warnings
warnings.simplefilter("ignore")
from audiolazy import z, Stream, ZFilter, CascadeFilter, ParallelFilter

x = [1., 2., -3., 4., .5, 5., 7., -1.]
s = [.5, -.25, .1, 2., 1., -1., .3, .2]
failed = False

def show(title, p, expected):
  global failed
  print(title)
  print("   p.is_linear() =", p.is_linear())
  try:
    num, den = p.numpoly, p.denpoly
    got = list(ZFilter(num, den)(x))
  except Exception as exc:
    got = "%s: %s" % (type(exc).__name__, exc)
  ok = got == expected
  failed |= not ok
  print("   ZFilter(p.numpoly, p.denpoly)(x) =", got)
  print("   expected                         =", expected)
  print("   ->", "ok" if ok else "VIOLATION")

# constants only:  z^-1 + z^-1 (1 + z^-1) = 2 z^-1 + z^-2
p = ParallelFilter(z ** -1, CascadeFilter(z ** -1, 1 + z ** -1))
print("p(x) =", list(p(x)))
show("constants", p, list((2 * z ** -1 + z ** -2)(x)))

# time varying:  z^-1 + s[n] z^-1 (1 + z^-1) = (1 + s[n]) z^-1 + s[n] z^-2
# (coefficient sequences multiplied element by element, as CascadeFilter.numpoly
# itself does it; that is not p(x) any more, only the constants case is)
mk = lambda: ParallelFilter(z ** -1,
                            CascadeFilter(Stream(s) * z ** -1, 1 + z ** -1))
expected = list(ZFilter({1: 1 + Stream(s), 2: Stream(s)})(x))
show("Stream coefficient in the nested cascade", mk(), expected)

# the other way round there is at least an exception
p = ParallelFilter(CascadeFilter(z ** -1, 1 + z ** -1), z ** -1)
try:
  print("cascade first: numpoly =", p.numpoly)
except Exception as exc:
  print("cascade first: %s: %s" % (type(exc).__name__, exc))

sys.exit(1 if failed else 0)
