#!/usr/bin/env python
"""
C06 / finding 3: a filter whose numerator is all zeros and whose only
denominator coefficient is a Stream a0[n] forgets a0 completely: the output
neither ends when a0 ends nor is divided by a0[n].

Exit status 1 when the violation shows, 0 otherwise.
"""
import sys, warnings
warnings.simplefilter("ignore")
from audiolazy import z, Stream, ZFilter, CascadeFilter, ParallelFilter

x = [1., 2., -3., 4., .5, 5., 7., -1.]
failed = False

# a0[n] * y[n] = 0 * x[n], a0 has 3 values -> 3 output samples
f = ZFilter([0.], [Stream([1., 2., 4.])])
got = list(f(x))
ok = got == [0., 0., 0.]
failed |= not ok
print("ZFilter([0.], [Stream([1., 2., 4.])])(x) ->", got)
print("   expected [0.0, 0.0, 0.0] (a0 ends after 3 values) ->",
      "ok" if ok else "VIOLATION")

# For comparison, the general branch (any non-zero numerator) does end
g = ZFilter([1e-300], [Stream([1., 2., 4.])])
print("   same with numerator 1e-300:", list(g(x)))

# The same thing reached by filter arithmetic, inside a container: the second
# branch of this ParallelFilter is 0 / a0[n], so the sum has to end with a0
h = ParallelFilter(1 + z ** -1, (0 * z ** -1) / ZFilter([Stream([1., 2., 4.])]))
got = list(h(x))
ok = len(got) == 3
failed |= not ok
print("ParallelFilter(1 + z^-1, 0 / a0[n])(x) has", len(got),
      "samples, expected 3 ->", "ok" if ok else "VIOLATION")

# a0[n] = 0 is an invalid gain for every other numerator (ZeroDivisionError),
# here it goes unnoticed
f = ZFilter([0.], [Stream([1., 0., 4.])])
try:
  got = list(f(x))
  ok = False
except ZeroDivisionError:
  got, ok = "ZeroDivisionError", True
failed |= not ok
print("a0 = [1, 0, 4] with zero numerator ->", got,
      "; with numerator 1:", end=" ")
try:
  print(list(ZFilter([1.], [Stream([1., 0., 4.])])(x)))
except ZeroDivisionError:
  print("ZeroDivisionError")
print("   ->", "ok" if ok else "VIOLATION")

sys.exit(1 if failed else 0)
