#!/usr/bin/env python
"""
C06 / finding 1: ParallelFilter.numpoly / ParallelFilter.denpoly.

The (numpoly, denpoly) pair of a ParallelFilter is the library's own "sum of
filters" algebra.  With Stream coefficients in the denominators the pair
 (a) reads every denominator Stream TWICE per output sample when denpoly is
     read before numpoly (two branches), and in ANY order with three branches;
 (b) does not even describe one filter when two branches have equal
     denominators (numpoly is over the common denominator, denpoly is the
     product of all denominators) - also with constants only.

Exit status 1 when a violation shows, 0 otherwise.
"""
import sys, warnings
warnings.simplefilter("ignore")
from audiolazy import z, Stream, ZFilter, ParallelFilter


class Counting(object):
  """ Iterator over a list that counts how many items were asked for. """
  def __init__(self, data):
    self.data, self.n = list(data), 0
  def __iter__(self):
    return self
  def __next__(self):
    if self.n >= len(self.data):
      raise StopIteration
    self.n += 1
    return self.data[self.n - 1]
  next = __next__


def ref(b, a, x, zero=0.):
  """ a0[n]*y[n] = sum_k b_k[n]*x[n-k] - sum_{k>=1} a_k[n]*y[n-k] """
  at = lambda c, n: c[n] if isinstance(c, list) else c
  y = []
  for n in range(len(x)):
    try:
      acc = sum(at(c, n) * (x[n - k] if n >= k else zero) for k, c in b.items())
      acc -= sum(at(c, n) * (y[n - k] if n >= k else zero)
                 for k, c in a.items() if k)
      y.append(acc / at(a.get(0, 1), n))
    except IndexError: # A coefficient sequence ended
      break
  return y


def close(u, v):
  return len(u) == len(v) and all(abs(p - q) <= 1e-9 * max(1, abs(p), abs(q))
                                  for p, q in zip(u, v))

x  = [1., 2., -3., 4., .5, 5., 7., -1.]
s1 = [.5, -.25, .1, 2., 1., -1., .3, .2]
s2 = [.1, .2, .3, .4, .5, .6, .7, .8]
s3 = [-.3, .3, -.2, .2, -.1, .1, .4, -.4]
failed = False

# ---------------------------------------------------------------- (a) 2 terms
# f1 = 1 / (1 - s1[n] z^-1)        f2 = z^-1 / (1 - s2[n] z^-1)
# f1 + f2 = (1 + (1 - s2) z^-1 - s1 z^-2) / (1 - (s1 + s2) z^-1 + s1 s2 z^-2)
expected2 = ref({0: 1, 1: [1 - v for v in s2], 2: [-v for v in s1]},
                {0: 1, 1: [-(p + q) for p, q in zip(s1, s2)],
                       2: [p * q for p, q in zip(s1, s2)]}, x)

for order in ["numpoly first", "denpoly first"]:
  c1, c2 = Counting(s1), Counting(s2)
  p = ParallelFilter(1 / (1 - Stream(c1) * z ** -1),
                     z ** -1 / (1 - Stream(c2) * z ** -1))
  if order == "numpoly first":
    num = p.numpoly; den = p.denpoly
  else:
    den = p.denpoly; num = p.numpoly
  out = ZFilter(num, den)(x)
  first3 = out.take(3)
  reads = (c1.n, c2.n)
  got = first3 + list(out)
  ok = close(got, expected2) and reads == (3, 3)
  failed |= not ok
  print("2 branches, %s:" % order)
  print("   reads of (s1, s2) after 3 output samples:", reads, "(required: (3, 3))")
  print("   output  :", got)
  print("   expected:", expected2)
  print("   ->", "ok" if ok else "VIOLATION")

# ---------------------------------------------------------------- (a) 3 terms
c1, c2, c3 = Counting(s1), Counting(s2), Counting(s3)
p = ParallelFilter(1 / (1 - Stream(c1) * z ** -1),
                   z ** -1 / (1 - Stream(c2) * z ** -1),
                   1 / (1 - Stream(c3) * z ** -1))
num = p.numpoly; den = p.denpoly # The order that works with 2 branches
out = ZFilter(num, den)(x)
first2 = out.take(2)
reads = (c1.n, c2.n, c3.n)
got = first2 + list(out)
# Same thing with the filters' own "+" (which the fuzzing found correct)
sum3 = (1 / (1 - Stream(s1) * z ** -1) + z ** -1 / (1 - Stream(s2) * z ** -1)
                                       + 1 / (1 - Stream(s3) * z ** -1))
expected3 = list(sum3(x))
ok = close(got, expected3) and reads == (2, 2, 2)
failed |= not ok
print("3 branches, numpoly first:")
print("   reads of (s1, s2, s3) after 2 output samples:", reads,
      "(required: (2, 2, 2))")
print("   output  :", got)
print("   expected:", expected3, "(= (f1 + f2 + f3)(x))")
print("   ->", "ok" if ok else "VIOLATION")

# ------------------------------------------------- (b) equal denominators
# Time varying numerators over one constant denominator:
#   f1 = b1[n] / (1 - .5 z^-1)     f2 = b2[n] z^-1 / (1 - .5 z^-1)
# The parallel structure, f1 + f2 and the statement's difference equation
#   y[n] = b1[n] x[n] + b2[n] x[n-1] + .5 y[n-1]        all agree ...
mk = lambda: ParallelFilter(Stream(s1) / (1 - .5 * z ** -1),
                            Stream(s2) * z ** -1 / (1 - .5 * z ** -1))
expected = ref({0: s1, 1: s2}, {0: 1, 1: -.5}, x)
par = list(mk()(x))
p = mk()
direct = list((p[0] + p[1])(x))
p = mk()
props = list(ZFilter(p.numpoly, p.denpoly)(x)) # ... but this one
ok = close(par, expected) and close(direct, expected) and close(props, expected)
failed |= not ok
print("equal (constant) denominators, Stream numerators:")
print("   ParallelFilter(f1, f2)(x)        :", par)
print("   (f1 + f2)(x)                     :", direct)
print("   ZFilter(p.numpoly, p.denpoly)(x) :", props)
print("   expected                         :", expected)
print("   ->", "ok" if ok else "VIOLATION")

# The same with constants only ("constants standing for constant streams")
p = ParallelFilter(1 / (1 - .5 * z ** -1), z ** -1 / (1 - .5 * z ** -1))
props = list(ZFilter(p.numpoly, p.denpoly)(x))
par = list(p(x))
ok = close(props, par)
failed |= not ok
print("equal denominators, constants only: numpoly = %s ; denpoly = %s"
      % (p.numpoly, p.denpoly))
print("   p(x)                             :", par)
print("   ZFilter(p.numpoly, p.denpoly)(x) :", props)
print("   ->", "ok" if ok else "VIOLATION")

sys.exit(1 if failed else 0)
