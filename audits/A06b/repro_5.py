#!/usr/bin/env python
"""
C06 / finding 5 (lower confidence, see findings.md): the designed filters
gammatone.slaney and gammatone.sampled use their Stream parameters (and the
ZFilter objects built from them) several times without thub() / copy(), so a
time varying bandwidth or frequency silently gives an empty or meaningless
output, while gammatone.klapuri, resonator, lowpass, highpass and comb do what
the statement says with the very same arguments.

Exit status 1 when the violation shows, 0 otherwise.
"""
import sys, warnings
warnings.simplefilter("ignore")
from audiolazy import Stream, gammatone

x  = [1., 2., -3., 4., 0., 5., 7., -1., 2., 2.]
fr = [.1, .5, 1., 1.5, 2., 2.5, 3., .3, .7, 1.1]
bw = [.05, .1, .2, .3, .1, .2, .4, .5, .01, .02]


def ref(b, a, x, zero=0.):
  at = lambda c, n: c[n] if isinstance(c, list) else c
  y = []
  for n in range(len(x)):
    acc = sum(at(c, n) * (x[n - k] if n >= k else zero) for k, c in b.items())
    acc -= sum(at(c, n) * (y[n - k] if n >= k else zero)
               for k, c in a.items() if k)
    y.append(acc / at(a.get(0, 1), n))
  return y


def expected(design, params):
  """
  Coefficient n of every stage is the coefficient of the constant design for
  the n-th parameter values; the stages are cascaded.
  """
  stages = len(design(*params[0]))
  sig = x
  for idx in range(stages):
    b, a = {}, {}
    for n, args in enumerate(params):
      filt = design(*args)[idx]
      for k, v in filt.numdict.items():
        b.setdefault(k, [0.] * len(params))[n] = v
      for k, v in filt.dendict.items():
        a.setdefault(k, [0.] * len(params))[n] = v
    sig = ref(b, a, sig)
  return sig


def close(u, v):
  return len(u) == len(v) and all(not isinstance(p, Stream) and
                                  abs(p - q) <= 1e-9 * max(1, abs(p), abs(q))
                                  for p, q in zip(u, v))

failed = False
for name in ["klapuri", "slaney", "sampled"]:
  design = gammatone[name]
  for what in ["bandwidth", "freq", "both"]:
    f = Stream(fr) if what in ("freq", "both") else fr[0]
    b = Stream(bw) if what in ("bandwidth", "both") else bw[0]
    params = [(fr[n] if what in ("freq", "both") else fr[0],
               bw[n] if what in ("bandwidth", "both") else bw[0])
              for n in range(len(x))]
    try:
      got = list(design(f, b)(x))
    except Exception as exc:
      got = "%s: %s" % (type(exc).__name__, exc)
    exp = expected(design, params)
    ok = isinstance(got, list) and close(got, exp)
    if name != "klapuri":
      failed |= not ok
    shown = got if not isinstance(got, list) or len(got) < 3 else \
            "[%s, ...] (%d samples)" % (", ".join("%.4g" % v for v in got[:3]),
                                        len(got))
    print("gammatone.%-8s Stream %-10s-> %s : %s"
          % (name, what, shown, "ok" if ok else "VIOLATION"))

sys.exit(1 if failed else 0)
