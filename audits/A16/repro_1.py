"""MARGINAL (type coverage): a non-negative decimal.Decimal delta is accepted
by Streamix.add() but the mixer dies with TypeError at the moment the event is
due, taking every other event with it.  int / float / Fraction / bool deltas
are fine.  Exit 1 when the behaviour shows."""
import sys, warnings
warnings.simplefilter("ignore")
from decimal import Decimal
from fractions import Fraction
from audiolazy import Streamix

def run(d1):
    m = Streamix(zero=0)
    m.add(0, [1, 1, 1, 1, 1, 1])
    m.add(d1, [10, 10])          # T = 1.6 -> nearest sample 2
    try:
        return list(m)
    except Exception as exc:
        return "%s: %s | afterwards: %r" % (type(exc).__name__, exc, list(m))

expected = [1, 1, 11, 11, 1, 1]
ref = run(Fraction(8, 5))
got = run(Decimal("1.6"))
print("expected          :", expected)
print("Fraction(8, 5)    :", ref)
print("Decimal('1.6')    :", got)
sys.exit(0 if got == expected else 1)
