"""StrategyDict: a non-string name (the class docstring says "The names can be
any hashable") makes item assignment raise half-way: the item IS stored, but no
default is chosen, and the name can afterwards be neither deleted nor
overwritten.  Only d[k] = v, del d[k], d[k] and d() are used."""
import sys, warnings
warnings.simplefilter("ignore")
from audiolazy import StrategyDict

def f(): return "f"
def g(): return "g"
bad = []

sd = StrategyDict("sd")
try:
  sd[1] = f
  print("sd[1] = f           -> ok")
except Exception as exc:
  print("sd[1] = f           -> %s: %s" % (type(exc).__name__, exc))
  bad.append("assignment with a hashable non-string name raised")
print("len(sd), sd[1]      ->", len(sd), sd[1].__name__)
print("'default' in vars   ->", "default" in vars(sd))
print("sd()                ->", sd())
if len(sd) == 1 and sd[1] is f and sd() != "f":
  bad.append("f is stored (first strategy) but is not the default; sd() = %r"
             % (sd(),))

try:
  sd[1] = g
  print("sd[1] = g           -> ok")
except Exception as exc:
  print("sd[1] = g           -> %s: %s" % (type(exc).__name__, exc))
try:
  now = sd[1].__name__
except KeyError:
  now = "KeyError"
print("sd[1] now           ->", now, "  keys ->", list(sd.keys()))
if now != "g":
  bad.append("d[k] is not the last value assigned to k: after sd[1] = f; "
             "sd[1] = g, sd[1] -> %s" % now)

sd = StrategyDict("sd")
try:
  sd[1] = f
except TypeError:
  pass
try:
  del sd[1]
  print("del sd[1]           -> ok")
except KeyError:
  print("del sd[1]           -> KeyError")
except Exception as exc:
  print("del sd[1]           -> %s: %s" % (type(exc).__name__, exc))
  bad.append("deleting a PRESENT key raised %s" % type(exc).__name__)

# a string name mixed with a non-string one: the string name is stored as a
# key of the item but never becomes an attribute
sd = StrategyDict("sd")
try:
  sd[(1, "b")] = f
except Exception as exc:
  print("sd[(1, 'b')] = f    -> %s: %s" % (type(exc).__name__, exc))
print("sd['b'], hasattr b  ->", sd["b"].__name__, hasattr(sd, "b"))
if sd["b"] is f and not hasattr(sd, "b"):
  bad.append("name 'b' is an item but not an attribute")

print()
for b in bad:
  print("VIOLATION:", b)
sys.exit(1 if bad else 0)
