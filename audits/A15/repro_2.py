"""StrategyDict: string names that coincide with attributes the class itself
relies on ("default", "values", "key2keys", ...) are stored with setattr over
those attributes, so the default / iteration / deletion clauses stop holding.
Only d[k] = v, del d[k], iteration and d() are used."""
import sys, warnings
warnings.simplefilter("ignore")
from audiolazy import StrategyDict

def f(*a): return "f"
def g(*a): return "g"
bad = []

class Refused(Exception): pass
def store(sd, key, value):
  """ sd[key] = value; a library that cleanly refuses the name is fine """
  before = (dict.copy(sd), dict(vars(sd)))
  try:
    sd[key] = value
  except ValueError as exc:
    if (dict.copy(sd), dict(vars(sd))) == before:
      print("    (name %r refused, nothing changed: %s)" % (key, exc))
      raise Refused
    raise

# (a) the name "default"
sd = StrategyDict("sd")
try:
  store(sd, ("default", "x"), f)   # first strategy stored, two names
  sd["y"] = g
  del sd["default"]                # f keeps its name "x"
  print("(a) keys            ->", list(sd.keys()))
  print("(a) 'default' attr  ->", "default" in vars(sd), " sd() ->", sd())
  if sd["x"] is f and sd() != "f":
    bad.append("(a) the first strategy stored still has a name, yet it is no "
               "longer the default: sd() = %r" % (sd(),))
except Refused:
  pass

sd = StrategyDict("sd")
sd["a"] = f
try:
  store(sd, "default", g)
  print("(a') sd()           ->", sd())
  if sd() != "f":
    bad.append("(a') storing a second strategy under the name 'default' "
               "replaced the default: sd() = %r" % (sd(),))
except Refused:
  pass

# (b) the name "values": iteration calls the strategy
sd = StrategyDict("sd")
try:
  store(sd, "values", f)
  try:
    lst = list(sd)
  except Exception as exc:
    lst = "%s: %s" % (type(exc).__name__, exc)
  print("(b) list(sd)        ->", lst, " len ->", len(sd))
  if lst != [f]:
    bad.append("(b) iteration does not yield the stored values: %r" % (lst,))
except Refused:
  pass

# (c) the name "key2keys": deletion is broken, and overwriting leaves a
# default that has lost all its names
sd = StrategyDict("sd")
try:
  store(sd, "key2keys", f)
  try:
    del sd["key2keys"]
    res = "ok"
  except Exception as exc:
    res = "%s: %s" % (type(exc).__name__, exc)
  print("(c) del present key ->", res, " keys ->", list(sd.keys()))
  if list(sd.keys()) != []:
    bad.append("(c) deleting a present key failed: %s" % res)
  sd["key2keys"] = g
  print("(c) after overwrite ->", list(sd.keys()), " sd() ->", sd())
  if f not in list(dict.values(sd)) and sd() == "f":
    bad.append("(c) the default lost all its names but is still the default")
except Refused:
  pass

# (d) the name "_inv_dict": everything stops
sd = StrategyDict("sd")
try:
  store(sd, "_inv_dict", f)
  try:
    sd["a"] = g
    res = "ok"
  except Exception as exc:
    res = "%s: %s" % (type(exc).__name__, exc)
  print("(d) next assignment ->", res)
  if res != "ok":
    bad.append("(d) assignment after storing the name '_inv_dict': " + res)
except Refused:
  pass

print()
for b in bad:
  print("VIOLATION:", b)
sys.exit(1 if bad else 0)
