"""MultiKeyDict: the lookups / deletions / assignments inherited from dict
(in, get, pop, popitem, clear, setdefault, update, |=) work on the underlying
{key tuple: value} storage and bypass the two bookkeeping dicts."""
import sys, warnings
warnings.simplefilter("ignore")
from audiolazy import MultiKeyDict

bad = []
def new():
  d = MultiKeyDict()
  d[1] = 3; d[2] = 3; d[4] = 2
  return d
def attempt(f):
  try:
    return f()
  except Exception as exc:
    return "%s(%s)" % (type(exc).__name__, exc)

d = new()
print("1 in d              ->", 1 in d, "   d[1] ->", d[1])
if not (1 in d):
  bad.append("lookup: d[1] == 3 but `1 in d` is False")
print("d.get(1)            ->", d.get(1))
if d.get(1) != 3:
  bad.append("lookup: d[1] == 3 but d.get(1) is %r" % (d.get(1),))

d = new()
r = attempt(lambda: d.pop(4))
print("d.pop(4)            ->", r)
if r != 2:
  bad.append("deletion: d.pop(4) gave %s although d[4] == 2" % (r,))

d = new()
d.clear()
print("clear: len, list    ->", len(d), list(d), attempt(lambda: d[1]))
if len(d) != len(list(d)):
  bad.append("deletion: after clear() len(d) == %d but iteration yields %r"
             % (len(d), list(d)))
r = attempt(lambda: d.__setitem__(1, 5))
print("then d[1] = 5       ->", r)
if r is not None:
  bad.append("after clear() a plain assignment d[1] = 5 raises %s" % r)

d = new()
d.popitem()
print("popitem: len, list  ->", len(d), list(d), attempt(lambda: d[4]))
if len(d) != len(list(d)):
  bad.append("deletion: after popitem() len(d) == %d but iteration yields %r"
             % (len(d), list(d)))

d = new()
d.update({1: 9})
print("update({1: 9}): d[1]->", d[1], "  keys ->", list(d.keys()))
if d[1] != 9:
  bad.append("assignment: after d.update({1: 9}) d[1] is %r" % (d[1],))

d = new()
r = d.setdefault(7, 3)
print("setdefault(7, 3)    ->", r, attempt(lambda: d[7]), list(d.keys()))
if attempt(lambda: d[7]) != 3 or len(d) != 2:
  bad.append("assignment: after d.setdefault(7, 3): d[7] -> %s, len(d) == %d"
             " (3 is held by keys 1 and 2 already)"
             % (attempt(lambda: d[7]), len(d)))

print()
for b in bad:
  print("VIOLATION:", b)
sys.exit(1 if bad else 0)
