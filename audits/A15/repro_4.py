"""MultiKeyDict: a key that is itself a tuple (stored through a key tuple) can
be neither looked up nor deleted; a NaN key cannot be deleted (silently)."""
import sys, warnings
warnings.simplefilter("ignore")
from audiolazy import MultiKeyDict

bad = []
def attempt(f):
  try:
    return f()
  except Exception as exc:
    return "%s(%s)" % (type(exc).__name__, exc)

d = MultiKeyDict()
d[("a", (1, 2))] = 5          # two keys: "a" and (1, 2)
print("key2keys((1, 2))    ->", d.key2keys((1, 2)))
r = attempt(lambda: d[(1, 2)])
print("d[(1, 2)]           ->", r)
if r != 5:
  bad.append("d[(1, 2)] -> %s although 5 was assigned to key (1, 2)" % r)
r = attempt(lambda: d.__delitem__((1, 2)))
print("del d[(1, 2)]       ->", r, "  keys ->", list(d.keys()))
if r is not None:
  bad.append("deleting the PRESENT key (1, 2) raises %s" % r)

nan = float("nan")
d = MultiKeyDict()
d[(nan, 1)] = 5
r = attempt(lambda: d.__delitem__(nan))
print("del d[nan]          ->", r, "  keys ->", list(d.keys()))
if any(k is nan for ks in d.keys() for k in ks):
  bad.append("del d[nan] returned normally but nan is still a key: %r"
             % (list(d.keys()),))

print()
for b in bad:
  print("VIOLATION:", b)
sys.exit(1 if bad else 0)
