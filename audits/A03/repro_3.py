"""Stream.__getattr__ answers for EVERY missing name, and reads self._data
without checking that it exists.  copy.copy(stream) (the standard-library
spelling of "copy") builds an empty instance with cls.__new__, probes it with
hasattr(y, "__setstate__"), and the probe recurses for ever:
__getattr__("__setstate__") -> self._data -> __getattr__("_data") -> ...
The same recursion hits a StreamTeeHub whose constructor failed (thub of an
exhausted hub) as soon as anything touches it.  Expected: either a working
independent copy, or a clean TypeError/AttributeError - and the source
stream left usable.  (copy.deepcopy "works" but returns no copy: it is the elementwise stream
s.__deepcopy__(memo), tied to the source's own iterator, so using it raises
AttributeError about an *element* and eats an item of the source.)"""
import sys, copy, warnings
warnings.simplefilter("ignore")
from audiolazy import Stream, thub, StreamTeeHub

bad = 0
s = Stream([1, 2, 3])
try:
  c = copy.copy(s)
  got = ("copied", c.take(2), s.take(3))
except RecursionError as exc:
  got = "RecursionError: %s" % exc
except (TypeError, AttributeError) as exc:
  got = "clean refusal"
print("copy.copy(Stream([1, 2, 3])) ->", got)
if got not in ("clean refusal", ("copied", [1, 2], [1, 2, 3])):
  bad += 1
  print("   <-- VIOLATION: neither an independent copy nor a clean refusal")

s = Stream([1, 2, 3])
try:
  c = copy.deepcopy(s)
  got = ("copied", c.take(2), s.take(3))
except RecursionError as exc:
  got = "RecursionError: %s" % exc
except (TypeError, AttributeError) as exc:
  got = "%s: %s" % (type(exc).__name__, exc)
print("copy.deepcopy(Stream([1, 2, 3])) ->", got, "; source afterwards:", s.take(3))

# bare instance, as copy / pickle make them
y = Stream.__new__(Stream)
try:
  hasattr(y, "anything")
  got = "answered"
except RecursionError:
  got = "RecursionError"
print("hasattr(Stream.__new__(Stream), 'anything') ->", got)
if got == "RecursionError":
  bad += 1
  print("   <-- VIOLATION")
print("violations:", bad)
sys.exit(1 if bad else 0)
