"""lazy_itertools.accumulate, strategy "func" / "pure_python": the Stream it
returns for an EMPTY input is not the empty sequence - iterating it raises
RuntimeError (PEP 479: next() on the empty iterator inside the generator).
The other two strategies, and the library's own
tests/test_itertools.py::TestAccumulate::test_empty_input, say it is []."""
import sys, warnings
warnings.simplefilter("ignore")
from audiolazy import Stream, thub, inf
from audiolazy.lazy_itertools import accumulate

bad = 0
def attempt(what, fn, exp):
  global bad
  try:
    got = fn()
  except Exception as exc:
    got = "%s: %s" % (type(exc).__name__, exc)
  ok = got == exp
  bad += not ok
  print("%-58s got %-44r expected %r%s" % (what, got, exp, "" if ok else "   <-- VIOLATION"))

for name in ["accumulate", "z", "func"]:
  acc = accumulate[name]
  for label, make in [("[]", lambda: []), ("()", lambda: ()),
                      ("Stream([])", lambda: Stream([])),
                      ("Stream([1, 2]).skip(2)", lambda: Stream([1, 2]).skip(2)),
                      ("Stream([1, 2]).limit(0)", lambda: Stream([1, 2]).limit(0)),
                      ("thub([], 1)", lambda: thub([], 1))]:
    attempt("list(accumulate.%s(%s))" % (name, label), lambda: list(acc(make())), [])
    attempt("accumulate.%s(%s).take(3)" % (name, label), lambda: acc(make()).take(3), [])
    attempt("accumulate.%s(%s).peek(inf)" % (name, label), lambda: acc(make()).peek(inf), [])
attempt("control: list(accumulate.func([4, 7, 5]))", lambda: list(accumulate.func([4, 7, 5])), [4, 11, 16])
print("violations:", bad)
sys.exit(1 if bad else 0)
