"""C03 / thub clause: elementwise attribute access (hub.name) and elementwise
call (hub(...)) read the hub's private source iterator instead of taking one
of its n tee copies.  No use is spent, and every item fetched that way is lost
to ALL the uses the hub hands out afterwards (and two such accesses steal
items from each other)."""
import sys, warnings
warnings.simplefilter("ignore")
from audiolazy import Stream, thub

bad = 0
def check(what, got, exp):
  global bad
  ok = got == exp
  bad += not ok
  print("%-52s got %-32r expected %r%s" % (what, got, exp, "" if ok else "   <-- VIOLATION"))

def uses_left(h):
  k = 0
  while True:
    try:
      iter(h)
    except IndexError:
      return k
    k += 1

data = [3+4j, 6+8j, 5+12j, 8+15j]

# (a) a natural 2-use expression: |z|^2 = re^2 + im^2
h = thub(data, 2)
power = h.real ** 2 + h.imag ** 2
check("list(h.real**2 + h.imag**2), h = thub(data, 2)", list(power),
      [z.real ** 2 + z.imag ** 2 for z in data])
check("uses left in h afterwards", uses_left(h), 0)

# (b) one attribute access, then the remaining regular uses
h = thub(data, 3)
re = h.real
check("h = thub(data, 3); re = h.real; re.take(2)", re.take(2), [3.0, 6.0])
check("next use : list(Stream(h))", list(Stream(h)), data)
check("next use : list(Stream(h))", list(Stream(h)), data)
check("uses left after h.real + 2 x Stream(h)", uses_left(h), 0)
check("re.take(inf) (rest of the attribute stream)", re.take(float("inf")), [5.0, 8.0])

# (c) elementwise call
h = thub([abs, abs, abs], 3)
called = h(-7)
check("h(-7).take(1)", called.take(1), [7])
check("h = thub([abs]*3, 3); len(list(h)) next use", len(list(h)), 3)
check("len(list(h)) next use", len(list(h)), 3)
check("uses left after h(-7) + 2 x list(h)", uses_left(h), 0)

# (d) the same thing with an operator spends a use and is independent
h = thub(data, 2)
check("control: list(h * 2) then list(h)", (list(h * 2), list(h)),
      ([z * 2 for z in data], data))

print("violations:", bad)
sys.exit(1 if bad else 0)
