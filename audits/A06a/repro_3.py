"""C06 / finding 3: a time-varying a0 is never read when the numerator is zero.

"the output ends when the input or any coefficient stream ends" and "every
coefficient stream is read exactly once per output sample" -- for the filter
0 / a0[n] (zero numerator, leading denominator coefficient a finite Stream and no
other feedback term) the a0 stream is not read at all and the output runs as long
as the input.  With the zero written as the constant stream Stream(0) the very
same filter stops with a0 and reads it once per sample.
Exit status 1 when the violation shows.
"""
import sys, warnings
warnings.simplefilter("ignore")
from audiolazy import ZFilter, Stream, z

class Counting(object):
    def __init__(self, values):
        self.values, self.reads = list(values), 0
    def __iter__(self):
        return self
    def __next__(self):
        if self.reads >= len(self.values):
            raise StopIteration
        self.reads += 1
        return self.values[self.reads - 1]

bad = False
print("a0 = finite Stream of 2 values, input of 5 samples: 2 outputs required")
for label, build in [
    ("ZFilter([0], [a0])", lambda a0: ZFilter([0], [a0])),
    ("ZFilter([0.0, 0], [a0])", lambda a0: ZFilter([0.0, 0], [a0])),
    ("0 * (1 / ZFilter([a0]))", lambda a0: 0 * (1 / ZFilter([a0]))),
    ("reference: ZFilter([Stream(0)], [a0])", lambda a0: ZFilter([Stream(0)], [a0])),
  ]:
    src = Counting([1, 2])
    filt = build(Stream(src))
    out = list(filt(range(5)))
    verdict = "ok" if (len(out), src.reads) == (2, 2) else "VIOLATION"
    if verdict != "ok" and not label.startswith("reference"):
        bad = True
    print("  %-40s filter %-8r -> %d outputs %r, a0 read %d times   %s"
          % (label, str(filt).replace("\n", " "), len(out), out, src.reads, verdict))
sys.exit(1 if bad else 0)
