"""C06 / finding 1: constant coefficients are formatted into the generated source text.

A constant coefficient must behave like the constant stream of the same value
("constants standing for constant streams", "a constant stream behaves like the
constant").  LinearFilter.__call__ writes str(constant) into the source of the
generator it exec()s, so the constant is re-parsed as a Python literal:
  Fraction(1, 3) -> "1/3"  -> the float 0.333...   (exactness lost, wrong integer results)
  Decimal("0.5") -> "0.5"  -> the float 0.5        (TypeError: float * Decimal)
The very same filters work exactly when the constant is written as Stream(constant).
Exit status 1 when the violation shows.
"""
import sys, warnings
warnings.simplefilter("ignore")
from fractions import Fraction as F
from decimal import Decimal as D
from audiolazy import ZFilter, Stream

bad = False

def run(label, filt, x, zero):
    try:
        out = list(filt(x, zero=zero))
    except Exception as exc:
        out = "%s: %s" % (type(exc).__name__, exc)
    print("  %-16s %r" % (label, out))
    return out

# ---- (a) Fraction constants b0, a1 next to a time-varying b1 ------------------
x = [3 * 10 ** 17 + 3, 6, 9, 12]
b1 = [1, 2, 3, 4]
def reference(b0, b1, a1, x):  # a0 = 1:  y[n] = b0*x[n] + b1[n]*x[n-1] - a1*y[n-1]
    y = []
    for n in range(len(x)):
        y.append(b0 * x[n] + b1[n] * (x[n - 1] if n else 0) - a1 * (y[n - 1] if n else 0))
    return y
exp = reference(F(1, 3), b1, F(1, 7), x)
print("(a) y[n] = 1/3 x[n] + b1[n] x[n-1] - 1/7 y[n-1]   (b1 = Stream, 1/3 and 1/7 Fractions)")
print("  %-16s %r" % ("required", exp))
got_c = run("constants", ZFilter([F(1, 3), Stream(b1)], [1, F(1, 7)]), x, 0)
got_s = run("constant streams", ZFilter([Stream(F(1, 3)), Stream(b1)], [1, Stream(F(1, 7))]), x, 0)
if got_s != exp:
    print("  (unexpected: the constant-stream form is wrong too)")
if got_c != exp or [type(v) for v in got_c] != [type(v) for v in exp]:
    bad = True
    print("  VIOLATION: constants give", type(got_c[0]).__name__, "values; y[0] is off by",
          exp[0] - F(got_c[0]) if not isinstance(got_c, str) else "n/a", "(an integer-sized error)")

# ---- (b) the same with the constant as a0 -----------------------------------------
x = [1, 2, 3, 4]
exp = [(x[n] + b1[n] * (x[n - 1] if n else 0)) / F(1, 49) for n in range(4)]
print("(b) 1/49 y[n] = x[n] + b1[n] x[n-1]   (a0 = Fraction(1, 49))")
print("  %-16s %r" % ("required", exp))
got_c = run("constant a0", ZFilter([1, Stream(b1)], [F(1, 49)]), x, 0)
got_s = run("stream a0", ZFilter([1, Stream(b1)], [Stream(F(1, 49))]), x, 0)
if isinstance(got_c, str) or any(F(g) != e for g, e in zip(got_c, exp)):
    bad = True
    print("  VIOLATION: a0*y[n] == sum(...) does not hold: y =", [str(F(g)) for g in got_c][:2], "...")

# ---- (c) Decimal constants ----------------------------------------------------------
xd = [D(1), D(2), D(3)]
print("(c) y[n] = 0.5 x[n] + b1[n] x[n-1]   (all Decimal)")
got_c = run("constant", ZFilter([D("0.5"), Stream([D(1)] * 3)]), xd, D(0))
got_s = run("constant stream", ZFilter([Stream(D("0.5")), Stream([D(1)] * 3)]), xd, D(0))
if got_c != got_s:
    bad = True
    print("  VIOLATION: the constant does not behave like the constant stream")

sys.exit(1 if bad else 0)
