"""C06 / finding 4: scaling / multiplying by a constant zero throws the coefficient streams away.

"a constant stream behaves like the constant", "the output ends when the input or
any coefficient stream ends", "every coefficient stream is read exactly once per
output sample however many times the algebra used it".

f = b0[n] + b1[n] z^-1 with two finite coefficient streams (3 values each), input of
6 samples.  f * Stream(0) gives 3 zeros and reads b0, b1 three times each (what the
statement asks for).  f * 0, 0 * f, f * 0.0, f * (z**-1 - z**-1) and f ** 0 drop b0 and b1
from the filter: they are never read and the output does not end with them.
Exit status 1 when the violation shows.
"""
import sys, warnings
warnings.simplefilter("ignore")
from audiolazy import ZFilter, Stream, z

class Counting(object):
    def __init__(self, values):
        self.values, self.reads = list(values), 0
    def __iter__(self):
        return self
    def __next__(self):
        if self.reads >= len(self.values):
            raise StopIteration
        self.reads += 1
        return self.values[self.reads - 1]

bad = False
cases = [
    ("reference: f * Stream(0)", lambda f: f * Stream(0)),
    ("f * 0", lambda f: f * 0),
    ("0 * f", lambda f: 0 * f),
    ("f * 0.0", lambda f: f * 0.0),
    ("f * (z**-1 - z**-1)", lambda f: f * (z ** -1 - z ** -1)),
    ("f ** 0", lambda f: f ** 0),
    ("(f * 0) + a / (1 - .5 z^-1)", None),
]
print("f = b0[n] + b1[n] z^-1, len(b0) = len(b1) = 3, 6 input samples: 3 outputs required")
for label, op in cases:
    b0, b1 = Counting([1, 2, 3]), Counting([4, 5, 6])
    f = ZFilter([Stream(b0), Stream(b1)])
    if op is None:  # the zero-scaled branch of a larger sum
        g = f * 0 + 2 / (1 - .5 * z ** -1)
    else:
        g = op(f)
    out = list(g(iter([1, 1, 1, 1, 1, 1])))
    ok = len(out) == 3 and (b0.reads, b1.reads) == (3, 3)
    if not ok and not label.startswith("reference"):
        bad = True
    print("  %-30s -> filter %-22r %d outputs, b0 read %d, b1 read %d   %s"
          % (label, str(g).replace("\n", " | "), len(out), b0.reads, b1.reads, "ok" if ok else "VIOLATION"))
sys.exit(1 if bad else 0)
