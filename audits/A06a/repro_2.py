"""C06 / finding 2: substituting a time-varying filter, f(g), reads g's coefficient streams
once per TERM of f instead of once per output sample.

ZFilter.__call__(seq) with a ZFilter argument computes  sum_k v_k * seq ** -k  (numerator and
denominator), i.e. it is filter arithmetic built from powers, products and sums of `seq`.
`seq` is handed over by the caller exactly once, but the library uses that one object for
every term without a tee copy, so all the terms pull from the same single-pass iterator.
The statement asks that the arithmetic acts "on coefficient sequences element by element"
and that "every coefficient stream is read exactly once per output sample however many
times the algebra used it".

  f = 1 + z^-1 + z^-2,  g = z / s[n]   =>   f(g) = 1 + s[n] z^-1 + s[n]^2 z^-2
Exit status 1 when the violation shows.
"""
import sys, warnings
warnings.simplefilter("ignore")
from audiolazy import ZFilter, Stream, z

class Counting(object):
    def __init__(self, values):
        self.values, self.reads = list(values), 0
    def __iter__(self):
        return self
    def __next__(self):
        if self.reads >= len(self.values):
            raise StopIteration
        self.reads += 1
        return self.values[self.reads - 1]

sv = [2, 3, 5, 7, 11, 13, 17, 19, 23, 29]
x = [1, 1, 1, 1]
s = Counting(sv)
f = 1 + z ** -1 + z ** -2
g = z / Stream(s)                    # one-term filter (1/s[n]) z ; g ** -k == s[n]**k z**-k
h = f(g)                             # the caller used g (and s) exactly once
print("f(g) =", h)
got = list(h(x, zero=0))
exp = [x[n] + sv[n] * (x[n - 1] if n >= 1 else 0) + sv[n] ** 2 * (x[n - 2] if n >= 2 else 0)
       for n in range(len(x))]
print("required y[n] = x[n] + s[n] x[n-1] + s[n]^2 x[n-2]:", exp, " (s read 4 times)")
print("library                                          :", got, " (s read %d times)" % s.reads)
ok = all(abs(a - b) < 1e-9 for a, b in zip(got, exp)) and len(got) == len(exp) and s.reads == len(x)

# the explicit sum the substitution stands for, written with copies, is right:
s2 = Counting(sv)
g2 = z / Stream(s2)
h2 = 1 + g2.copy() ** -1 + g2 ** -2
got2 = list(h2(x, zero=0))
print("1 + g.copy()**-1 + g**-2 (by hand)                :", got2, " (s read %d times)" % s2.reads)
if not ok:
    print("VIOLATION: coefficient stream read more than once per output sample; wrong output values")
sys.exit(0 if ok else 1)
