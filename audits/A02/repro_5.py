"""
C02 repro 5 (lower confidence) - the function returned by lagrange.func reads a
Stream argument once per (j, k) factor.

``lagrange.func(pairs)`` (lazy_poly.py:515-519) returns
``lambda k: sum(yv[j] * prod((k - rk) / (rj - rk) ...) ...)``.  The argument
``k`` is supplied once but appears n * (n - 1) times in the expression; with a
Stream ``k`` every occurrence is one more reader of the same single-pass
iterator.  ``lagrange.poly(pairs)(stream)`` - the very same interpolator through
Poly.__call__, which tees its argument - is right, so the two documented
spellings of one stage disagree, and the .func one reads n * (n - 1) * k items
for k outputs.

Exit status 1 when the violation shows, 0 otherwise.
"""
import sys, warnings, itertools as it
warnings.simplefilter("ignore")
from audiolazy import Stream, lagrange, almost_eq


class Src(object):
  def __init__(self, gen):
    self.g, self.n = iter(gen), 0
  def __iter__(self):
    return self
  def __next__(self):
    self.n += 1
    return next(self.g)
  next = __next__

pairs = [(0, 1), (1, 2), (2, 5)]          # y = x ** 2 + 1
K = 4
xs = [.5 * i for i in range(K)]
ref = [v * v + 1 for v in xs]

s1 = Src(.5 * i for i in it.count())
out_func = lagrange.func(pairs)(Stream(s1)).take(K)
s2 = Src(.5 * i for i in it.count())
out_poly = lagrange.poly(pairs)(Stream(s2)).take(K)
print("reference            :", ref)
print("lagrange.poly(Stream):", out_poly, "reads", s2.n, "(required %d)" % K)
print("lagrange.func(Stream):", out_func, "reads", s1.n, "(required %d)" % K)
bad = s1.n != K or not almost_eq(out_func, ref)
print("VIOLATION" if bad else "no violation")
sys.exit(1 if bad else 0)
