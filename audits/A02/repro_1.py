"""
C02 repro 1 - StreamTeeHub.<attribute> and StreamTeeHub(...) bypass the tee.

Stream.__getattr__ / Stream.__call__ (lazy_stream.py:353-366) read from
``self._data``.  For a StreamTeeHub ``self._data`` is the RAW iterator that was
handed to itertools.tee, not one of the hub copies, so

  * every ``hub.attr`` / ``hub(...)`` stage is one more independent reader of
    the raw source: a sample-wise chain that uses the hub twice reads 2k source
    items for k outputs (a source that raises past k items blows up);
  * the items such a stage reads never reach the real hub copies (data loss,
    wrong values), and no hub copy is consumed.

Exit status 1 when the violation shows, 0 otherwise.
"""
import sys, warnings, itertools as it
warnings.simplefilter("ignore")
from audiolazy import Stream, thub


class Src(object):
  """Endless counting source; optionally raises when read past ``bound``."""
  def __init__(self, gen, bound=None):
    self.g, self.n, self.bound = iter(gen), 0, bound
  def __iter__(self):
    return self
  def __next__(self):
    if self.bound is not None and self.n >= self.bound:
      raise AssertionError("source read past its bound of %d items" % self.bound)
    self.n += 1
    return next(self.g)
  next = __next__

bad = False
K = 5

# (a) sample-wise chain over a hub: real + imag of i - i*j == 0 for every item
src = Src((complex(i, -i) for i in it.count()))
h = thub(src, 2)
stage = h.real + h.imag                  # two declared uses of a 2-copy hub
print("(a) reads after building      :", src.n, "(required 0)")
out = stage.take(K)
print("(a) first %d outputs          :" % K, out, "(required [0.0]*%d)" % K)
print("(a) source items read         :", src.n, "(required %d)" % K)
bad |= src.n != K or out != [0.0] * K

# (b) same thing with a source that forbids reading more than K items
src = Src((complex(i, -i) for i in it.count()), bound=K)
h = thub(src, 2)
try:
  (h.real + h.imag).take(K)
  print("(b) bounded source            : ok")
except AssertionError as exc:
  print("(b) bounded source            :", exc)
  bad = True

# (c) the attribute stage steals items from the real copies and uses none
src = Src(complex(i, -i) for i in it.count())
h = thub(src, 3)                                # 1 use for .real, 2 plain uses
re3 = h.real.take(3)
c1, c2 = Stream(h).take(3), Stream(h).take(3)
print("(c) h.real.take(3)            :", re3)
print("(c) the two other hub copies  :", c1, c2,
      "(required to start at 0j: a hub copy sees every item)")
bad |= c1[0] != 0j or c2[0] != 0j

# (d) elementwise call on a hub of callables
src = Src([abs, abs, abs, abs])
h = thub(src, 2)
r = h(-3).take(2)
rest = list(h)
print("(d) h(-3).take(2), len(copy)  :", r, len(rest), "(required 4 items in the copy)")
bad |= len(rest) != 4

print("VIOLATION" if bad else "no violation")
sys.exit(1 if bad else 0)
