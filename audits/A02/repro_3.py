"""
C02 repro 3 - stages that do not survive a FINITE source (PEP 479).

The quantifier of C02 covers finite sources, and a lazy stage that is asked for
more outputs than a finite source can define has to END (every other stage of
the library does: Stream.take docstring, "less if there aren't enough").
Four stage generators still let a StopIteration escape from a bare next() /
Stream.take() inside a generator body, which Python >= 3.7 turns into
``RuntimeError: generator raised StopIteration`` - so on a finite source the
consumer gets no output list at all, not even the outputs that were defined:

  resample            lazy_poly.py:596,598,605   next(step) / next(isig)
  overlap_add.*       lazy_analysis.py:775,819   blk_sig.peek() on no blocks
  accumulate.func     lazy_itertools.py:75       next(iterator)
  unwrap              lazy_analysis.py:674       next(idata)

The first three are exercised by the library's own test-suite
(test_poly.py::TestResample, test_analysis.py::TestOverlapAdd::test_empty,
test_itertools.py::TestAccumulate::test_empty_input) and fail there too.

Exit status 1 when the violation shows, 0 otherwise.
"""
import sys, warnings
warnings.simplefilter("ignore")
from audiolazy import (Stream, resample, overlap_add, accumulate, unwrap,
                       almost_eq)

bad = False

def attempt(label, thunk, expected):
  global bad
  try:
    got = thunk()
  except RuntimeError as exc:
    print("%-46s -> RuntimeError: %s   (required %r)" % (label, exc, expected))
    bad = True
    return
  ok = almost_eq(got, expected) and len(got) == len(expected)
  print("%-46s -> %r   (required %r)%s" % (label, got, expected,
                                            "" if ok else "  MISMATCH"))
  bad |= not ok

data = [1, 2, 3, 4, 5]
attempt("resample(data, 1, .5, order=1).take(20)",
        lambda: resample(data, old=1, new=.5, order=1).take(20), [1, 3, 5])
attempt("resample(data, 1, 2, order=1).take(20)",
        lambda: resample(data, old=1, new=2, order=1).take(20),
        [1, 1.5, 2, 2.5, 3, 3.5, 4, 4.5, 5])
attempt("resample(endless, old=Stream([1, 1]), order=1)",
        lambda: resample(Stream(7.), old=Stream([1, 1]), order=1).take(20),
        [7., 7., 7.])  # 1st output + one output per available step
attempt("overlap_add.list([]) (size found from data)",
        lambda: list(overlap_add.list([])), [])
attempt("overlap_add.list(Stream([1]).blocks(4, 2), hop=2)",
        lambda: list(overlap_add.list(Stream([1.]).blocks(4, 2), hop=2)), [])
attempt("accumulate.func([])",
        lambda: list(accumulate.func([])), [])
attempt("unwrap([])",
        lambda: list(unwrap([])), [])

print("VIOLATION" if bad else "no violation")
sys.exit(1 if bad else 0)
