"""
C02 repro 2 - filter / polynomial composition uses its argument once per term
without teeing it.

ZFilter.__call__(seq) with a ZFilter ``seq`` (lazy_filters.py:890-892) and
Poly.__call__(value) with a Poly ``value`` (lazy_poly.py:313-316) evaluate

    sum(coeff * arg ** power for power, coeff in terms)

so ``arg`` - which the caller supplies exactly ONCE - is raised to a power once
for every term.  When ``arg`` carries a Stream coefficient, every ``arg ** p``
becomes one more reader of the same single-pass coefficient iterator: the
resulting (sample-wise, time-varying) filter / polynomial reads n*k coefficient
items for its first k outputs and every reader only sees every n-th item.
The sibling code paths (Poly.__pow__, Poly.__mul__, Poly.__truediv__,
Poly.__call__ with a Stream, linearize, ...) all tee for exactly this reason.

Exit status 1 when the violation shows, 0 otherwise.
"""
import sys, warnings, itertools as it
warnings.simplefilter("ignore")
from audiolazy import Stream, z, x, Poly


class Src(object):
  def __init__(self, gen, bound=None):
    self.g, self.n, self.bound = iter(gen), 0, bound
  def __iter__(self):
    return self
  def __next__(self):
    if self.bound is not None and self.n >= self.bound:
      raise AssertionError("source read past its bound of %d items" % self.bound)
    self.n += 1
    return next(self.g)
  next = __next__

bad = False
K = 4
a = [float(i + 1) for i in range(K)]          # the coefficient values 1, 2, 3, 4

# (a) ZFilter substitution  H(z) = 1 + z^-1 + z^-2,  z := a[n] * z
#     => y[n] = x[n] + x[n-1] / a[n] + x[n-2] / a[n]**2
coef = Src(float(i + 1) for i in it.count())
inp = Src(it.repeat(1.))
filt = (1 + z ** -1 + z ** -2)(Stream(coef) * z)
print("(a) coefficient reads after building the filter:", coef.n, "(required 0)")
out = filt(inp, zero=0.).take(K)
ref = [1. + (1 / a[n] if n >= 1 else 0.) + (1 / a[n] ** 2 if n >= 2 else 0.)
       for n in range(K)]
print("(a) outputs  :", out)
print("(a) reference:", ref)
print("(a) input reads %d (required %d), coefficient reads %d (required %d)"
      % (inp.n, K, coef.n, K))
bad |= coef.n != K or any(abs(o - r) > 1e-12 for o, r in zip(out, ref))

# (b) the same with a coefficient source that forbids reading more than K items
coef = Src((float(i + 1) for i in it.count()), bound=K)
try:
  (1 + z ** -1 + z ** -2)(Stream(coef) * z)(Stream(1.), zero=0.).take(K)
  print("(b) bounded coefficient source: ok")
except AssertionError as exc:
  print("(b) bounded coefficient source:", exc)
  bad = True

# (c) Poly composition  p(x) = x^2 + x + 1,  x := a[n] * x   evaluated at x = 1
#     => a[n]**2 + a[n] + 1
coef = Src(float(i + 1) for i in it.count())
comp = (x ** 2 + x + 1)(Poly({1: Stream(coef)}))
out = comp(1).take(K)
ref = [v * v + v + 1 for v in a]
print("(c) outputs  :", out)
print("(c) reference:", ref)
print("(c) coefficient reads %d (required %d)" % (coef.n, K))
bad |= coef.n != K or out != ref

# (d) ... and with a two-term argument  x := 1 + a[n] * x  (general ** branch)
#     => (1 + a)^2 + (1 + a) + 1
coef = Src(float(i + 1) for i in it.count())
comp = (x ** 2 + x + 1)(Poly([1, Stream(coef)]))
out = comp(1).take(K)
ref = [(1 + v) ** 2 + (1 + v) + 1 for v in a]
print("(d) outputs  :", out)
print("(d) reference:", ref)
print("(d) coefficient reads %d (required %d)" % (coef.n, K))
bad |= coef.n != K or out != ref

print("VIOLATION" if bad else "no violation")
sys.exit(1 if bad else 0)
