"""
C02 repro 4 (borderline input: hop > size) - overlap_add squeezes out the gaps
between non-overlapping blocks and therefore reads ahead of the demand.

``blocks`` / ``Stream.blocks`` explicitly supports hop > size (lazy_misc.py:
111-123, "skips (loses) data due to hop > size").  Feeding such blocks to
``overlap_add`` with the same size / hop must put block j at output position
j * hop, i.e. the first k outputs need ceil(k / hop) blocks =
(ceil(k / hop) - 1) * hop + size source items.  Both strategies
(lazy_analysis.py:799-806 numpy, 852-862 list) yield ``mem[:hop]`` of a
``size``-long memory, i.e. only ``size`` samples per block with no zeros for
the hop - size gap: the output is time-compressed and k outputs consume
ceil(k / size) blocks.  ``stft`` refuses hop > size with a ValueError
(lazy_analysis.py:1077-1078); ``overlap_add`` neither refuses nor handles it.

Exit status 1 when the violation shows, 0 otherwise.
"""
import sys, warnings, itertools as it
warnings.simplefilter("ignore")
from audiolazy import Stream, overlap_add


class Src(object):
  def __init__(self, gen):
    self.g, self.n = iter(gen), 0
  def __iter__(self):
    return self
  def __next__(self):
    self.n += 1
    return next(self.g)
  next = __next__

size, hop, K = 2, 5, 12
src = Src(float(i + 1) for i in it.count())
ola = overlap_add.list(Stream(src).blocks(size=size, hop=hop),
                       size=size, hop=hop, normalize=False)
out = ola.take(K)

# tiny reference model: place block j at j * hop and add
need_blocks = -(-K // hop)
need_items = (need_blocks - 1) * hop + size
ref = [0.] * (need_blocks * hop + size)
for j in range(need_blocks):
  for i in range(size):
    ref[j * hop + i] += float(j * hop + i + 1)
ref = ref[:K]

print("outputs      :", out)
print("reference    :", ref)
print("source reads : %d (required at most %d = (%d - 1) * %d + %d)"
      % (src.n, need_items, need_blocks, hop, size))
bad = out != ref or src.n > need_items
print("VIOLATION" if bad else "no violation")
sys.exit(1 if bad else 0)
