"""
C17 repro 6 - one sample that does not fit the sample format: the manager can
never be closed again (close() is a busy loop), the device stream stays open.

AudioThread.run has no try/finally. When packing a chunk fails inside the
library (struct.error / OverflowError raised by chunks(), not by user code) the
thread dies with the stream open and itself still in AudioIO._threads. close()
then takes ``self._threads[0]``, joins it (returns at once, the thread is dead),
finds it still first in the list, and repeats for ever at 100% CPU - with wait
true and with wait false ("otherwise promptly"). Other players of the same
manager can not be shut down either, since terminate() is never reached.
The same missing ``finally`` is what turns repro 1, 2, 4 and 7 into hangs.
"""
import os, sys, types, threading, struct, time
sys.path.insert(0, os.environ.get("AUDIOLAZY_ROOT", "/tmp/w17/wt-A17a"))
import warnings; warnings.simplefilter("ignore")

# ---- minimal PyAudio-compatible fake backend (modules pyaudio + _portaudio) ----
_FMT = {1: "f", 2: "i", 8: "h", 16: "b", 32: "B"}
class FakeStream(object):
  def __init__(self, pa, **kw):
    self._pa, self.kw, self._stream = pa, kw, self
    self.running, self.closed = True, False
    self.writes, self.events, self.nread = [], [], 0
  def read(self, nframes): # like pyaudio.Stream.read: nframes * channels samples
    n = nframes * self.kw.get("channels", 1)
    vals = [(self.nread * n + k) % 100 for k in range(n)]
    self.nread += 1
    return struct.pack("%d%s" % (n, _FMT[self.kw["format"]]), *vals)
  def stop_stream(self): self.running = False; self.events.append("stop")
  def start_stream(self): self.running = True; self.events.append("start")
  def close(self):
    self.closed = True; self.events.append("close"); self._pa._streams.discard(self)
class FakePyAudio(object):
  def __init__(self):
    self._streams, self.all_streams, self.terminated = set(), [], 0
  def open(self, **kw):
    s = FakeStream(self, **kw); self._streams.add(s); self.all_streams.append(s)
    return s
  def terminate(self): self.terminated += 1
def write_stream(st, data, nframes, exception_on_underflow=False):
  assert st.running and not st.closed
  st.writes.append((data, nframes)); st.events.append("write")
_pa = types.ModuleType("pyaudio"); _pa.PyAudio, _pa.Stream = FakePyAudio, FakeStream
_po = types.ModuleType("_portaudio"); _po.write_stream = write_stream
sys.modules["pyaudio"], sys.modules["_portaudio"] = _pa, _po
# -------------------------------------------------------------------------------

thread_errors = []
threading.excepthook = lambda a: thread_errors.append(
  "%s: %s" % (a.exc_type.__name__, a.exc_value))

def close_returns(manager, timeout=3.):
  """ Calls manager.close() in a helper thread; True when it came back. """
  done = threading.Event()
  def closer():
    try:
      manager.close()
    except BaseException as exc:
      thread_errors.append("close raised %s: %s" % (type(exc).__name__, exc))
    done.set()
  threading.Thread(target=closer, daemon=True).start()
  return done.wait(timeout)

def finish(violated):
  print("VIOLATION" if violated else "ok")
  sys.stdout.flush()
  os._exit(1 if violated else 0) # a spinning close() must not keep us alive

import audiolazy
print("audiolazy from", audiolazy.__file__)
from audiolazy import AudioIO, AudioThread, Stream, chunks

violated = False
for wait in (True, False):
  for dfmt, data in [("h", [1, 2, 3, 40000, 5]),     # > 32767
                     ("h", [1, 2, 3.5, 4])]:         # forgot int()
    del thread_errors[:]
    m = AudioIO(wait)
    other = m.play([0] * 6, dfmt=dfmt, chunk_size=2) # an innocent 2nd player
    th = m.play(data, dfmt=dfmt, chunk_size=2)
    th.join(2); other.join(2)
    out = m._pa.all_streams[1]
    returned = close_returns(m, 1.5)
    print("wait=%-5s dfmt=%s data=%s\n   chunks written=%d thread error=%s\n   "
          "close() returned=%s stream closed=%s terminated=%d thread listed=%s"
          % (wait, dfmt, data, len(out.writes), thread_errors, returned,
             out.closed, m._pa.terminated, th in m._threads))
    violated |= not returned or not out.closed or m._pa.terminated != 1
finish(violated)
