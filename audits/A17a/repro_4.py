"""
C17 repro 4 - two players fed with the two copies of one recording (or of any
Stream): one interleaving kills the second player, its samples are lost and
the manager never closes.

Stream.copy() / thub() are the documented way to use one Stream twice, and they
are plain itertools.tee branches. A tee branch raises
"RuntimeError: cannot re-enter the tee iterator" when next() is called on it
while a sibling branch is still inside next() of the shared source. With two
player threads that is just an interleaving: player 1 is inside the source
(for a RecStream: inside the blocking device read, where a real device spends
nearly all of its time) when player 2 asks its own copy for a sample. The
interleaving is forced here with two events inside the fake device's read().
No user code raises: the exception comes from the library's own copy.
"""
import os, sys, types, threading, struct, time
sys.path.insert(0, os.environ.get("AUDIOLAZY_ROOT", "/tmp/w17/wt-A17a"))
import warnings; warnings.simplefilter("ignore")

# ---- minimal PyAudio-compatible fake backend (modules pyaudio + _portaudio) ----
_FMT = {1: "f", 2: "i", 8: "h", 16: "b", 32: "B"}
class FakeStream(object):
  def __init__(self, pa, **kw):
    self._pa, self.kw, self._stream = pa, kw, self
    self.running, self.closed = True, False
    self.writes, self.events, self.nread = [], [], 0
  def read(self, nframes): # like pyaudio.Stream.read: nframes * channels samples
    n = nframes * self.kw.get("channels", 1)
    vals = [(self.nread * n + k) % 100 for k in range(n)]
    self.nread += 1
    return struct.pack("%d%s" % (n, _FMT[self.kw["format"]]), *vals)
  def stop_stream(self): self.running = False; self.events.append("stop")
  def start_stream(self): self.running = True; self.events.append("start")
  def close(self):
    self.closed = True; self.events.append("close"); self._pa._streams.discard(self)
class FakePyAudio(object):
  def __init__(self):
    self._streams, self.all_streams, self.terminated = set(), [], 0
  def open(self, **kw):
    s = FakeStream(self, **kw); self._streams.add(s); self.all_streams.append(s)
    return s
  def terminate(self): self.terminated += 1
def write_stream(st, data, nframes, exception_on_underflow=False):
  assert st.running and not st.closed
  st.writes.append((data, nframes)); st.events.append("write")
_pa = types.ModuleType("pyaudio"); _pa.PyAudio, _pa.Stream = FakePyAudio, FakeStream
_po = types.ModuleType("_portaudio"); _po.write_stream = write_stream
sys.modules["pyaudio"], sys.modules["_portaudio"] = _pa, _po
# -------------------------------------------------------------------------------

thread_errors = []
threading.excepthook = lambda a: thread_errors.append(
  "%s: %s" % (a.exc_type.__name__, a.exc_value))

def close_returns(manager, timeout=3.):
  """ Calls manager.close() in a helper thread; True when it came back. """
  done = threading.Event()
  def closer():
    try:
      manager.close()
    except BaseException as exc:
      thread_errors.append("close raised %s: %s" % (type(exc).__name__, exc))
    done.set()
  threading.Thread(target=closer, daemon=True).start()
  return done.wait(timeout)

def finish(violated):
  print("VIOLATION" if violated else "ok")
  sys.stdout.flush()
  os._exit(1 if violated else 0) # a spinning close() must not keep us alive

import audiolazy
print("audiolazy from", audiolazy.__file__)
from audiolazy import AudioIO, AudioThread, Stream, chunks

CS = 4
inside, release = threading.Event(), threading.Event()
_read = FakeStream.read
def blocking_read(self, nframes): # a device read blocks, that's its job
  inside.set()
  release.wait(5)
  return _read(self, nframes)
FakeStream.read = blocking_read

m = AudioIO(True)
rec = m.record(chunk_size=CS)
mon = rec.copy()
t1 = m.play(rec, chunk_size=CS)   # player 1: enters the device read and blocks
inside.wait(5)
t2 = m.play(mon, chunk_size=CS)   # player 2: asks its copy for the 1st sample
t2.join(.5)                       # (only ends that early when it died)
rec.stop()                        # the recording ends after this first chunk
release.set()                     # device read returns 4 samples
t1.join(2); t2.join(2)
inp, out1, out2 = m._pa.all_streams
exp = [struct.pack("4f", 0, 1, 2, 3)]
print("player thread errors:", thread_errors)
print("output 1 got the recording:", [w[0] for w in out1.writes] == exp)
print("output 2 got the recording:", [w[0] for w in out2.writes] == exp,
      "(%d chunks)" % len(out2.writes))
returned = close_returns(m)
print("close() returned:", returned, "| streams closed:",
      [s.closed for s in m._pa.all_streams], "| terminated:", m._pa.terminated)
violated = ([w[0] for w in out1.writes] != exp or [w[0] for w in out2.writes] != exp
            or not returned or m._pa.terminated != 1
            or not all(s.closed for s in m._pa.all_streams))
finish(violated)
