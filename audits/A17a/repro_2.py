"""
C17 repro 2 - the documented alternative chunking strategy never delivers a
chunk, and the manager never closes afterwards.

The docstring of chunks.array tells the user to select it with
``chunks.default = chunks.array`` and says "It'll be the one used by the
AudioIO/AudioThread playing mechanism". With that (documented) setting:
 (a) every chunk ends in array.array.tostring(), which no longer exists
     (removed in Python 3.9; tobytes() exists since 3.2) -> AttributeError in the
     player thread before the first write; the device stream stays open, the
     thread stays registered and AudioIO.close() spins for ever;
 (b) independently, the chunk buffer is initialised with xrange(size), so the
     8/16 bit formats overflow while building the buffer: "b" for size > 128,
     "B" for size > 256, "h" for size > 32768. With the default chunk size
     (2048) "b" and "B" can never be played with this strategy, on any Python.
"""
import os, sys, types, threading, struct, time
sys.path.insert(0, os.environ.get("AUDIOLAZY_ROOT", "/tmp/w17/wt-A17a"))
import warnings; warnings.simplefilter("ignore")

# ---- minimal PyAudio-compatible fake backend (modules pyaudio + _portaudio) ----
_FMT = {1: "f", 2: "i", 8: "h", 16: "b", 32: "B"}
class FakeStream(object):
  def __init__(self, pa, **kw):
    self._pa, self.kw, self._stream = pa, kw, self
    self.running, self.closed = True, False
    self.writes, self.events, self.nread = [], [], 0
  def read(self, nframes): # like pyaudio.Stream.read: nframes * channels samples
    n = nframes * self.kw.get("channels", 1)
    vals = [(self.nread * n + k) % 100 for k in range(n)]
    self.nread += 1
    return struct.pack("%d%s" % (n, _FMT[self.kw["format"]]), *vals)
  def stop_stream(self): self.running = False; self.events.append("stop")
  def start_stream(self): self.running = True; self.events.append("start")
  def close(self):
    self.closed = True; self.events.append("close"); self._pa._streams.discard(self)
class FakePyAudio(object):
  def __init__(self):
    self._streams, self.all_streams, self.terminated = set(), [], 0
  def open(self, **kw):
    s = FakeStream(self, **kw); self._streams.add(s); self.all_streams.append(s)
    return s
  def terminate(self): self.terminated += 1
def write_stream(st, data, nframes, exception_on_underflow=False):
  assert st.running and not st.closed
  st.writes.append((data, nframes)); st.events.append("write")
_pa = types.ModuleType("pyaudio"); _pa.PyAudio, _pa.Stream = FakePyAudio, FakeStream
_po = types.ModuleType("_portaudio"); _po.write_stream = write_stream
sys.modules["pyaudio"], sys.modules["_portaudio"] = _pa, _po
# -------------------------------------------------------------------------------

thread_errors = []
threading.excepthook = lambda a: thread_errors.append(
  "%s: %s" % (a.exc_type.__name__, a.exc_value))

def close_returns(manager, timeout=3.):
  """ Calls manager.close() in a helper thread; True when it came back. """
  done = threading.Event()
  def closer():
    try:
      manager.close()
    except BaseException as exc:
      thread_errors.append("close raised %s: %s" % (type(exc).__name__, exc))
    done.set()
  threading.Thread(target=closer, daemon=True).start()
  return done.wait(timeout)

def finish(violated):
  print("VIOLATION" if violated else "ok")
  sys.stdout.flush()
  os._exit(1 if violated else 0) # a spinning close() must not keep us alive

import audiolazy
print("audiolazy from", audiolazy.__file__)
from audiolazy import AudioIO, AudioThread, Stream, chunks

data = [1., 2., 3., 4., 5.]
CS = 2
expected = [struct.pack("2f", 1, 2), struct.pack("2f", 3, 4), struct.pack("2f", 5, 0)]

chunks.default = chunks.array       # exactly what the docstring recommends
m = AudioIO(True)
th = m.play(data, chunk_size=CS)
th.join(2)
out = m._pa.all_streams[0]
print("(a) chunks written      :", [w[0] for w in out.writes] == expected,
      len(out.writes), "of", len(expected))
print("    player thread errors:", thread_errors)
returned = close_returns(m)
print("    close() returned    :", returned, "| stream closed:", out.closed,
      "| terminated:", m._pa.terminated)
violated = (not returned or [w[0] for w in out.writes] != expected
            or not out.closed or m._pa.terminated != 1)

# (b) buffer initialisation overflow, independent of tostring/tobytes
for dfmt, size in [("b", 128), ("b", 129), ("B", 256), ("B", 257), ("b", 2048)]:
  ref = list(chunks.struct([1, 2, 3], size=size, dfmt=dfmt, padval=0))
  try:
    got = list(chunks.array([1, 2, 3], size=size, dfmt=dfmt, padval=0))
    msg = "same as chunks.struct" if got == ref else "DIFFERENT"
  except OverflowError as exc:
    msg = "OverflowError: %s" % exc
    violated = True
  except AttributeError as exc: # (a) again; the buffer itself could be built
    msg = "AttributeError: %s" % exc
    violated = True
  print("(b) chunks.array dfmt=%r size=%-4d -> %s" % (dfmt, size, msg))
finish(violated)
