"""
C17 repro 7 - AudioThread.run reads its own deprecated property: with
DeprecationWarning turned into an error (python -W error::DeprecationWarning,
pytest's filterwarnings=error, ...) no player ever writes a chunk and the
manager never closes.

run() computes the chunk length with ``self.nchannels``, the backwards
compatibility alias that is wrapped in ``deprecate`` and calls warnings.warn on
every access; ``self.channels`` is the attribute the constructor stores. So the
library triggers its own deprecation warning once per player, from library
code, whatever the caller does. Under an "error" filter the warning is raised
as an exception at the first line of the chunk loop.
"""
import os, sys, types, threading, struct, time
sys.path.insert(0, os.environ.get("AUDIOLAZY_ROOT", "/tmp/w17/wt-A17a"))
import warnings; warnings.simplefilter("ignore")

# ---- minimal PyAudio-compatible fake backend (modules pyaudio + _portaudio) ----
_FMT = {1: "f", 2: "i", 8: "h", 16: "b", 32: "B"}
class FakeStream(object):
  def __init__(self, pa, **kw):
    self._pa, self.kw, self._stream = pa, kw, self
    self.running, self.closed = True, False
    self.writes, self.events, self.nread = [], [], 0
  def read(self, nframes): # like pyaudio.Stream.read: nframes * channels samples
    n = nframes * self.kw.get("channels", 1)
    vals = [(self.nread * n + k) % 100 for k in range(n)]
    self.nread += 1
    return struct.pack("%d%s" % (n, _FMT[self.kw["format"]]), *vals)
  def stop_stream(self): self.running = False; self.events.append("stop")
  def start_stream(self): self.running = True; self.events.append("start")
  def close(self):
    self.closed = True; self.events.append("close"); self._pa._streams.discard(self)
class FakePyAudio(object):
  def __init__(self):
    self._streams, self.all_streams, self.terminated = set(), [], 0
  def open(self, **kw):
    s = FakeStream(self, **kw); self._streams.add(s); self.all_streams.append(s)
    return s
  def terminate(self): self.terminated += 1
def write_stream(st, data, nframes, exception_on_underflow=False):
  assert st.running and not st.closed
  st.writes.append((data, nframes)); st.events.append("write")
_pa = types.ModuleType("pyaudio"); _pa.PyAudio, _pa.Stream = FakePyAudio, FakeStream
_po = types.ModuleType("_portaudio"); _po.write_stream = write_stream
sys.modules["pyaudio"], sys.modules["_portaudio"] = _pa, _po
# -------------------------------------------------------------------------------

thread_errors = []
threading.excepthook = lambda a: thread_errors.append(
  "%s: %s" % (a.exc_type.__name__, a.exc_value))

def close_returns(manager, timeout=3.):
  """ Calls manager.close() in a helper thread; True when it came back. """
  done = threading.Event()
  def closer():
    try:
      manager.close()
    except BaseException as exc:
      thread_errors.append("close raised %s: %s" % (type(exc).__name__, exc))
    done.set()
  threading.Thread(target=closer, daemon=True).start()
  return done.wait(timeout)

def finish(violated):
  print("VIOLATION" if violated else "ok")
  sys.stdout.flush()
  os._exit(1 if violated else 0) # a spinning close() must not keep us alive

import audiolazy
print("audiolazy from", audiolazy.__file__)
from audiolazy import AudioIO, AudioThread, Stream, chunks

warnings.resetwarnings()
with warnings.catch_warnings(record=True) as caught:
  warnings.simplefilter("always")
  with AudioIO(True) as m:
    m.play([1., 2., 3.], chunk_size=2)
print("warnings emitted by a plain play():",
      [(w.category.__name__, str(w.message)) for w in caught])

warnings.simplefilter("error", DeprecationWarning)
m = AudioIO(True)
th = m.play([1., 2., 3.], chunk_size=2)
th.join(2)
out = m._pa.all_streams[0]
returned = close_returns(m)
print("with DeprecationWarning as error: chunks written=%d thread error=%s\n"
      "   close() returned=%s stream closed=%s terminated=%d"
      % (len(out.writes), thread_errors, returned, out.closed, m._pa.terminated))
finish(bool(caught) or len(out.writes) != 2 or not returned or not out.closed)
