"""
C17 repro 3 - AudioIO.close() never returns (busy loop) and leaves the input
device stream open after a recording was shortened in place and played back.

AudioIO.close() ends every open recording with
    recst.stop(); recst.take(inf)   # "Ensure it'll be closed"
in a ``while self._recordings`` loop, i.e. it relies on recst._data still
leading to the recording generator, whose ``finally`` closes the device stream
and takes the RecStream off the list. But the Stream methods work IN PLACE:
``rec.limit(n)`` replaces rec._data by an islice. Once the islice is exhausted
take(inf) returns [] without ever reaching the generator, so the loop never
ends whenever the generator is still alive:
  case A  rec.limit(0) played (generator never started: dropping it runs no
          ``finally``)
  case B  mon = rec.copy(); rec.limit(8) played (the tee copy keeps the
          generator alive, so not even CPython's reference counting ends it)
Both plays themselves are fine (all chunks delivered); only close() hangs,
with wait true or false.
"""
import os, sys, types, threading, struct, time
sys.path.insert(0, os.environ.get("AUDIOLAZY_ROOT", "/tmp/w17/wt-A17a"))
import warnings; warnings.simplefilter("ignore")

# ---- minimal PyAudio-compatible fake backend (modules pyaudio + _portaudio) ----
_FMT = {1: "f", 2: "i", 8: "h", 16: "b", 32: "B"}
class FakeStream(object):
  def __init__(self, pa, **kw):
    self._pa, self.kw, self._stream = pa, kw, self
    self.running, self.closed = True, False
    self.writes, self.events, self.nread = [], [], 0
  def read(self, nframes): # like pyaudio.Stream.read: nframes * channels samples
    n = nframes * self.kw.get("channels", 1)
    vals = [(self.nread * n + k) % 100 for k in range(n)]
    self.nread += 1
    return struct.pack("%d%s" % (n, _FMT[self.kw["format"]]), *vals)
  def stop_stream(self): self.running = False; self.events.append("stop")
  def start_stream(self): self.running = True; self.events.append("start")
  def close(self):
    self.closed = True; self.events.append("close"); self._pa._streams.discard(self)
class FakePyAudio(object):
  def __init__(self):
    self._streams, self.all_streams, self.terminated = set(), [], 0
  def open(self, **kw):
    s = FakeStream(self, **kw); self._streams.add(s); self.all_streams.append(s)
    return s
  def terminate(self): self.terminated += 1
def write_stream(st, data, nframes, exception_on_underflow=False):
  assert st.running and not st.closed
  st.writes.append((data, nframes)); st.events.append("write")
_pa = types.ModuleType("pyaudio"); _pa.PyAudio, _pa.Stream = FakePyAudio, FakeStream
_po = types.ModuleType("_portaudio"); _po.write_stream = write_stream
sys.modules["pyaudio"], sys.modules["_portaudio"] = _pa, _po
# -------------------------------------------------------------------------------

thread_errors = []
threading.excepthook = lambda a: thread_errors.append(
  "%s: %s" % (a.exc_type.__name__, a.exc_value))

def close_returns(manager, timeout=3.):
  """ Calls manager.close() in a helper thread; True when it came back. """
  done = threading.Event()
  def closer():
    try:
      manager.close()
    except BaseException as exc:
      thread_errors.append("close raised %s: %s" % (type(exc).__name__, exc))
    done.set()
  threading.Thread(target=closer, daemon=True).start()
  return done.wait(timeout)

def finish(violated):
  print("VIOLATION" if violated else "ok")
  sys.stdout.flush()
  os._exit(1 if violated else 0) # a spinning close() must not keep us alive

import audiolazy
print("audiolazy from", audiolazy.__file__)
from audiolazy import AudioIO, AudioThread, Stream, chunks

CS = 4
violated = False
keep = [] # nothing is garbage collected while this script runs
for case in "AB":
  for wait in (True, False):
    del thread_errors[:]
    m = AudioIO(wait)
    rec = m.record(chunk_size=CS)
    if case == "A":
      n = 0
    else:
      n = 8
      mon = rec.copy()          # e.g. kept for analysis / saving later
      keep.append(mon)
    keep += [m, rec]
    th = m.play(rec.limit(n), chunk_size=CS)
    th.join(2)
    inp, out = m._pa.all_streams
    exp = [struct.pack("4f", *range(k, k + CS)) for k in range(0, n, CS)]
    data_ok = [w[0] for w in out.writes] == exp and out.closed
    returned = close_returns(m, 2.)
    print("case %s wait=%-5s limit(%d): playback ok=%s | close() returned=%s | "
          "input stream closed=%s | terminated=%d | errors=%s"
          % (case, wait, n, data_ok, returned, inp.closed, m._pa.terminated,
             thread_errors))
    violated |= (not data_ok or not returned or not inp.closed
                 or m._pa.terminated != 1)
finish(violated)
