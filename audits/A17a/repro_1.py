"""
C17 repro 1 - a 2-channel recording cannot be played back, and the manager
never closes afterwards.

AudioIO.record(channels=2) opens the input device with 2 channels, but RecStream
unpacks every device read with a struct of chunk_size samples instead of
chunk_size * channels. pyaudio.Stream.read(n) returns n FRAMES, i.e.
n * channels samples, so the very first read raises struct.error inside the
library. Played through AudioIO.play the player thread dies before its first
chunk, never closes its device stream, never deregisters, and AudioIO.close()
spins for ever on the dead thread.
"""
import os, sys, types, threading, struct, time
sys.path.insert(0, os.environ.get("AUDIOLAZY_ROOT", "/tmp/w17/wt-A17a"))
import warnings; warnings.simplefilter("ignore")

# ---- minimal PyAudio-compatible fake backend (modules pyaudio + _portaudio) ----
_FMT = {1: "f", 2: "i", 8: "h", 16: "b", 32: "B"}
class FakeStream(object):
  def __init__(self, pa, **kw):
    self._pa, self.kw, self._stream = pa, kw, self
    self.running, self.closed = True, False
    self.writes, self.events, self.nread = [], [], 0
  def read(self, nframes): # like pyaudio.Stream.read: nframes * channels samples
    n = nframes * self.kw.get("channels", 1)
    vals = [(self.nread * n + k) % 100 for k in range(n)]
    self.nread += 1
    return struct.pack("%d%s" % (n, _FMT[self.kw["format"]]), *vals)
  def stop_stream(self): self.running = False; self.events.append("stop")
  def start_stream(self): self.running = True; self.events.append("start")
  def close(self):
    self.closed = True; self.events.append("close"); self._pa._streams.discard(self)
class FakePyAudio(object):
  def __init__(self):
    self._streams, self.all_streams, self.terminated = set(), [], 0
  def open(self, **kw):
    s = FakeStream(self, **kw); self._streams.add(s); self.all_streams.append(s)
    return s
  def terminate(self): self.terminated += 1
def write_stream(st, data, nframes, exception_on_underflow=False):
  assert st.running and not st.closed
  st.writes.append((data, nframes)); st.events.append("write")
_pa = types.ModuleType("pyaudio"); _pa.PyAudio, _pa.Stream = FakePyAudio, FakeStream
_po = types.ModuleType("_portaudio"); _po.write_stream = write_stream
sys.modules["pyaudio"], sys.modules["_portaudio"] = _pa, _po
# -------------------------------------------------------------------------------

thread_errors = []
threading.excepthook = lambda a: thread_errors.append(
  "%s: %s" % (a.exc_type.__name__, a.exc_value))

def close_returns(manager, timeout=3.):
  """ Calls manager.close() in a helper thread; True when it came back. """
  done = threading.Event()
  def closer():
    try:
      manager.close()
    except BaseException as exc:
      thread_errors.append("close raised %s: %s" % (type(exc).__name__, exc))
    done.set()
  threading.Thread(target=closer, daemon=True).start()
  return done.wait(timeout)

def finish(violated):
  print("VIOLATION" if violated else "ok")
  sys.stdout.flush()
  os._exit(1 if violated else 0) # a spinning close() must not keep us alive

import audiolazy
print("audiolazy from", audiolazy.__file__)
from audiolazy import AudioIO, AudioThread, Stream, chunks

CS, CH = 4, 2
m = AudioIO(False)
rec = m.record(chunk_size=CS, channels=CH)
th = m.play(rec, chunk_size=CS, channels=CH)
time.sleep(.1)             # an endless recording: give it time for some chunks
rec.stop()                 # ends the recording at the next chunk boundary
th.join(2)
inp, out = m._pa.all_streams
print("input device reads     :", inp.nread)
print("chunks that reached out:", len(out.writes))
print("player thread errors   :", thread_errors)
returned = close_returns(m)
print("close() returned       :", returned)
print("output stream closed   :", out.closed, "| backend terminated:",
      m._pa.terminated)
# What the statement requires: the output chunks are the recorded samples
expected = b"".join(struct.pack("%df" % (CS * CH),
                                *[(r * CS * CH + k) % 100 for k in range(CS * CH)])
                    for r in range(inp.nread))
got = b"".join(w[0] for w in out.writes)
violated = (not returned or not out.closed or m._pa.terminated != 1
            or bool(thread_errors) or got != expected or not out.writes)
finish(violated)
