"""
C17 repro 5 - the tail of every audio that ends by itself is thrown away by a
backend that behaves like PortAudio on close.

When the played iterable is exhausted AudioThread.run calls stream.close()
straight after the last write_stream(), WITHOUT stop_stream(). In PortAudio
(hence PyAudio) a blocking write returns as soon as the data is queued,
Pa_StopStream "waits until all pending audio buffers have been played" and
Pa_CloseStream on a still active stream "discards any pending buffers as if
Pa_AbortStream() had been called". So the chunks still queued at that moment
(the last one(s), incl. the zero padded one) never sound. The pause and stop
branches of the same loop do call stop_stream() first; only the normal end
forgets it. The fake backend below models exactly that documented behaviour
with a queue of one chunk. (If "reaches the device" is read as "was passed to
write_stream" this is not a violation; with a device that behaves as documented
the listener loses the end of every sound, with wait=True as well.)
"""
import os, sys, types, threading, struct, time
sys.path.insert(0, os.environ.get("AUDIOLAZY_ROOT", "/tmp/w17/wt-A17a"))
import warnings; warnings.simplefilter("ignore")

# ---- minimal PyAudio-compatible fake backend (modules pyaudio + _portaudio) ----
_FMT = {1: "f", 2: "i", 8: "h", 16: "b", 32: "B"}
class FakeStream(object):
  def __init__(self, pa, **kw):
    self._pa, self.kw, self._stream = pa, kw, self
    self.running, self.closed = True, False
    self.writes, self.events, self.nread = [], [], 0
  def read(self, nframes): # like pyaudio.Stream.read: nframes * channels samples
    n = nframes * self.kw.get("channels", 1)
    vals = [(self.nread * n + k) % 100 for k in range(n)]
    self.nread += 1
    return struct.pack("%d%s" % (n, _FMT[self.kw["format"]]), *vals)
  def stop_stream(self): self.running = False; self.events.append("stop")
  def start_stream(self): self.running = True; self.events.append("start")
  def close(self):
    self.closed = True; self.events.append("close"); self._pa._streams.discard(self)
class FakePyAudio(object):
  def __init__(self):
    self._streams, self.all_streams, self.terminated = set(), [], 0
  def open(self, **kw):
    s = FakeStream(self, **kw); self._streams.add(s); self.all_streams.append(s)
    return s
  def terminate(self): self.terminated += 1
def write_stream(st, data, nframes, exception_on_underflow=False):
  assert st.running and not st.closed
  st.writes.append((data, nframes)); st.events.append("write")
_pa = types.ModuleType("pyaudio"); _pa.PyAudio, _pa.Stream = FakePyAudio, FakeStream
_po = types.ModuleType("_portaudio"); _po.write_stream = write_stream
sys.modules["pyaudio"], sys.modules["_portaudio"] = _pa, _po
# -------------------------------------------------------------------------------

thread_errors = []
threading.excepthook = lambda a: thread_errors.append(
  "%s: %s" % (a.exc_type.__name__, a.exc_value))

def close_returns(manager, timeout=3.):
  """ Calls manager.close() in a helper thread; True when it came back. """
  done = threading.Event()
  def closer():
    try:
      manager.close()
    except BaseException as exc:
      thread_errors.append("close raised %s: %s" % (type(exc).__name__, exc))
    done.set()
  threading.Thread(target=closer, daemon=True).start()
  return done.wait(timeout)

def finish(violated):
  print("VIOLATION" if violated else "ok")
  sys.stdout.flush()
  os._exit(1 if violated else 0) # a spinning close() must not keep us alive

import audiolazy
print("audiolazy from", audiolazy.__file__)
from audiolazy import AudioIO, AudioThread, Stream, chunks

# PortAudio-like buffering: a queue of ONE chunk between write and the speaker
def q_write(st, data, nframes, exception_on_underflow=False):
  assert st.running and not st.closed
  st.played = getattr(st, "played", []) + getattr(st, "pending", [])
  st.pending = [data]          # write returns when the data is queued
  st.events.append("write")
def q_stop(self):              # Pa_StopStream: waits for the pending buffers
  self.played = getattr(self, "played", []) + getattr(self, "pending", [])
  self.pending = []
  self.running = False; self.events.append("stop")
def q_close(self):             # Pa_CloseStream on an active stream: abort
  self.played = getattr(self, "played", [])
  self.pending = []            # (a stopped stream has nothing pending anyway)
  self.closed = True; self.events.append("close"); self._pa._streams.discard(self)
sys.modules["_portaudio"].write_stream = q_write
FakeStream.stop_stream, FakeStream.close = q_stop, q_close

CS = 4
data = [float(k) for k in range(1, 11)] # 10 samples -> 3 chunks, 2 zeros padded
exp = [struct.pack("4f", *(data + [0, 0])[k:k + CS]) for k in range(0, 12, CS)]
with AudioIO(True) as m:                 # wait=True: "waits for all audio"
  m.play(data, chunk_size=CS)
out = m._pa.all_streams[0]
print("device events     :", out.events)
print("chunks that sounded:", len(out.played), "of", len(exp))
print("samples lost       :", struct.unpack("4f", exp[-1]) if out.played != exp
                              else None)
finish(out.played != exp)
