"""
C17 repro 9 - with the module layout of PyAudio >= 0.2.12 (2022; the C
extension is ``pyaudio._portaudio``, there is no top-level ``_portaudio`` any
more) every AudioIO.play raises ModuleNotFoundError: nothing can be played.

AudioThread.__init__ does ``import _portaudio`` to fetch write_stream. The
function itself still exists with the same signature
(pyaudio._portaudio.write_stream(stream, frames, num_frames,
exception_on_underflow)), and so does Stream._stream.
"""
import os, sys, types, threading, struct, time
sys.path.insert(0, os.environ.get("AUDIOLAZY_ROOT", "/tmp/w17/wt-A17a"))
import warnings; warnings.simplefilter("ignore")

# ---- minimal PyAudio-compatible fake backend (modules pyaudio + _portaudio) ----
_FMT = {1: "f", 2: "i", 8: "h", 16: "b", 32: "B"}
class FakeStream(object):
  def __init__(self, pa, **kw):
    self._pa, self.kw, self._stream = pa, kw, self
    self.running, self.closed = True, False
    self.writes, self.events, self.nread = [], [], 0
  def read(self, nframes): # like pyaudio.Stream.read: nframes * channels samples
    n = nframes * self.kw.get("channels", 1)
    vals = [(self.nread * n + k) % 100 for k in range(n)]
    self.nread += 1
    return struct.pack("%d%s" % (n, _FMT[self.kw["format"]]), *vals)
  def stop_stream(self): self.running = False; self.events.append("stop")
  def start_stream(self): self.running = True; self.events.append("start")
  def close(self):
    self.closed = True; self.events.append("close"); self._pa._streams.discard(self)
class FakePyAudio(object):
  def __init__(self):
    self._streams, self.all_streams, self.terminated = set(), [], 0
  def open(self, **kw):
    s = FakeStream(self, **kw); self._streams.add(s); self.all_streams.append(s)
    return s
  def terminate(self): self.terminated += 1
def write_stream(st, data, nframes, exception_on_underflow=False):
  assert st.running and not st.closed
  st.writes.append((data, nframes)); st.events.append("write")
_pa = types.ModuleType("pyaudio"); _pa.PyAudio, _pa.Stream = FakePyAudio, FakeStream
_po = types.ModuleType("_portaudio"); _po.write_stream = write_stream
sys.modules["pyaudio"], sys.modules["_portaudio"] = _pa, _po
# -------------------------------------------------------------------------------

thread_errors = []
threading.excepthook = lambda a: thread_errors.append(
  "%s: %s" % (a.exc_type.__name__, a.exc_value))

def close_returns(manager, timeout=3.):
  """ Calls manager.close() in a helper thread; True when it came back. """
  done = threading.Event()
  def closer():
    try:
      manager.close()
    except BaseException as exc:
      thread_errors.append("close raised %s: %s" % (type(exc).__name__, exc))
    done.set()
  threading.Thread(target=closer, daemon=True).start()
  return done.wait(timeout)

def finish(violated):
  print("VIOLATION" if violated else "ok")
  sys.stdout.flush()
  os._exit(1 if violated else 0) # a spinning close() must not keep us alive

import audiolazy
print("audiolazy from", audiolazy.__file__)
from audiolazy import AudioIO, AudioThread, Stream, chunks

# Same fake backend, laid out like PyAudio >= 0.2.12
po = sys.modules.pop("_portaudio")
po.__name__ = "pyaudio._portaudio"
sys.modules["pyaudio"].__path__ = []            # make "pyaudio" a package
sys.modules["pyaudio"]._portaudio = po
sys.modules["pyaudio._portaudio"] = po

m = AudioIO(True)
try:
  m.play([1., 2., 3.], chunk_size=2)
  err = None
except ImportError as exc:
  err = exc
print("play raised:", repr(err))
m.close()
out = m._pa.all_streams
print("chunks written:", len(out[0].writes) if out else 0,
      "| terminated:", m._pa.terminated)
finish(err is not None or len(out[0].writes) != 2)
