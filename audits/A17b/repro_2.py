# -*- coding: utf-8 -*-
"""
C17 / finding 2 - the documented alternative chunking strategy kills every
player, and AudioIO.close() then spins for ever.

lazy_io.chunks is a StrategyDict; the docstring of chunks.array invites:
  "chooses the default one by assigning ``chunks.default = chunks.strategy_name``.
   It'll be the one used by the AudioIO/AudioThread playing mechanism."
chunks.array calls array.array.tostring(), removed in Python 3.9, so on this
interpreter the first chunk raises AttributeError INSIDE LIBRARY CODE (nothing
user supplied raises).  The player thread dies before "thread_finished", stays
in AudioIO._threads with its device stream open, and close() loops
  while True: thread = self._threads[0]; ...; thread.join()
on the same dead thread for ever (busy loop, never reaches terminate()).

Run: PYTHONPATH=<audiolazy worktree> python repro_2.py   (exit 1 = violation)
"""
import sys, types, threading, struct
threading.excepthook = lambda args: print(
  "  player thread died: %s: %s" % (args.exc_type.__name__, args.exc_value))

class Stream(object):
  def __init__(self, pa, **kw):
    self._pa, self._stream, self.written, self.closed = pa, self, [], False
  def stop_stream(self): pass
  def start_stream(self): pass
  def close(self):
    self.closed = True
    self._pa._streams.remove(self)
class PyAudio(object):
  def __init__(self):
    self._streams, self.all, self.terminated = set(), [], 0
  def open(self, **kw):
    st = Stream(self, **kw); self._streams.add(st); self.all.append(st)
    return st
  def terminate(self):
    self.terminated += 1
pa_mod = types.ModuleType("pyaudio"); pa_mod.PyAudio = PyAudio
port_mod = types.ModuleType("_portaudio")
port_mod.write_stream = lambda st, data, n, exc=False: st.written.append(data)
sys.modules["pyaudio"], sys.modules["_portaudio"] = pa_mod, port_mod

from audiolazy import AudioIO, chunks

bad = 0
print("python", sys.version.split()[0])
try:
  got = b"".join(chunks.array([1, 2, 3], size=4))
  print("chunks.array works:", struct.unpack("4f", got))
except AttributeError as exc:
  print("chunks.array([1, 2, 3], size=4) raises AttributeError:", exc)
  bad += 1

old = chunks.default
chunks.default = chunks.array # the documented knob
try:
  m = AudioIO(True)
  th = m.play([1, 2, 3, 4, 5], chunk_size=4)
  th.join()
  st = m._pa.all[0]
  print("chunks written to the device: %d (2 expected)" % len(st.written))
  print("thread alive: %s, still registered in the manager: %s, stream closed: %s"
        % (th.is_alive(), th in m._threads, st.closed))
  closer = threading.Thread(target=m.close)
  closer.daemon = True
  closer.start()
  closer.join(3)
  if closer.is_alive():
    print("AudioIO.close() has not returned after 3 s (busy loop); "
          "terminate calls: %d" % m._pa.terminated)
    bad += 1
  else:
    print("close() returned; terminate calls: %d" % m._pa.terminated)
    bad += m._pa.terminated != 1 or len(st.written) != 2
finally:
  chunks.default = old

print("VIOLATION" if bad else "ok")
sys.stdout.flush()
import os
os._exit(1 if bad else 0) # the spinning closer thread must not keep us here
