# -*- coding: utf-8 -*-
"""
C17 / finding 3 - AudioThread.run reads its OWN deprecated property
(``self.nchannels``), so every play() raises a DeprecationWarning from inside
the player thread.  With warnings turned into errors (python -W error, pytest
-W error, warnings.simplefilter("error")) nothing is played, the player dies
before deregistering, and AudioIO.close() spins for ever.

Run: PYTHONPATH=<audiolazy worktree> python repro_3.py   (exit 1 = violation)
"""
import sys, os, threading, warnings
# ---- minimal recording fake of pyaudio + _portaudio (inlined) ----
import types, struct

class Stream(object):
  def __init__(self, pa, **kw):
    self._pa, self._stream, self.kw = pa, self, kw
    self.written, self.closed, self.calls = [], False, []
    self.read_hook = None
  def stop_stream(self): self.calls.append("stop_stream")
  def start_stream(self): self.calls.append("start_stream")
  def close(self):
    self.calls.append("close")
    self.closed = True
    self._pa._streams.remove(self)
  def read(self, nframes):
    if self.read_hook: self.read_hook()
    return struct.pack("%df" % nframes, *([.25] * nframes))

class PyAudio(object):
  def __init__(self):
    self._streams, self.all, self.terminated = set(), [], 0
  def open(self, **kw):
    st = Stream(self, **kw); self._streams.add(st); self.all.append(st)
    return st
  def terminate(self):
    self.terminated += 1

def install():
  pa_mod = types.ModuleType("pyaudio"); pa_mod.PyAudio = PyAudio
  port_mod = types.ModuleType("_portaudio")
  port_mod.write_stream = lambda st, data, n, exc=False: st.written.append(data)
  sys.modules["pyaudio"], sys.modules["_portaudio"] = pa_mod, port_mod

def call_with_timeout(func, secs=3):
  """ (returned?, exception) of func() run in a daemon thread """
  import threading
  box = []
  def target():
    try:
      func(); box.append(None)
    except BaseException as exc:
      box.append(exc)
  th = threading.Thread(target=target); th.daemon = True
  th.start(); th.join(secs)
  return (not th.is_alive()), (box[0] if box else None)
install()
# ------------------------------------------------------------------
threading.excepthook = lambda args: print(
  "  player thread died: %s: %s" % (args.exc_type.__name__, args.exc_value))
from audiolazy import AudioIO

bad = 0
# (a) default filters made visible: the library warns about its own code
with warnings.catch_warnings(record=True) as caught:
  warnings.simplefilter("always")
  with AudioIO(True) as m:
    m.play([1, 2, 3, 4, 5], chunk_size=4, channels=1) # nothing deprecated used
for w in caught:
  print("warning from %s:%d  %s: %s" % (os.path.basename(w.filename), w.lineno,
                                       w.category.__name__, w.message))
own = [w for w in caught if w.category is DeprecationWarning
                           and "audiolazy" in w.filename]
print("DeprecationWarnings raised by the library about itself: %d" % len(own))
bad += bool(own)

# (b) -W error
with warnings.catch_warnings():
  warnings.simplefilter("error")
  m = AudioIO(True)
  th = m.play([1, 2, 3, 4, 5], chunk_size=4)
  th.join()
  st = m._pa.all[0]
  print("chunks written: %d (2 expected); stream closed: %s; still registered: %s"
        % (len(st.written), st.closed, th in m._threads))
  returned, exc = call_with_timeout(m.close)
  print("close() returned: %s; terminate calls: %d" % (returned, m._pa.terminated))
  bad += (not returned) or len(st.written) != 2 or m._pa.terminated != 1

print("VIOLATION" if bad else "ok")
sys.stdout.flush()
os._exit(1 if bad else 0)
