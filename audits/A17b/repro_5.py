# -*- coding: utf-8 -*-
"""
C17 / finding 5 (recording side, two managers) - closing the manager that
owns a recording while a player of ANOTHER manager is reading that recording:
close() drains the RecStream from the closing thread (``recst.take(inf)``)
while its generator is executing in the player thread -> ValueError out of
close(), input stream left open, backend never terminated, and the later
close() calls are ignored.

The player sits in ``file_obj.read`` (blocking device read) nearly all the
time, so with a real device this is the normal outcome, not a rare race; here
the read is held by an Event to make it deterministic.

Run: PYTHONPATH=<audiolazy worktree> python repro_5.py   (exit 1 = violation)
"""
import sys, os, threading
# ---- minimal recording fake of pyaudio + _portaudio (inlined) ----
import types, struct

class Stream(object):
  def __init__(self, pa, **kw):
    self._pa, self._stream, self.kw = pa, self, kw
    self.written, self.closed, self.calls = [], False, []
    self.read_hook = None
  def stop_stream(self): self.calls.append("stop_stream")
  def start_stream(self): self.calls.append("start_stream")
  def close(self):
    self.calls.append("close")
    self.closed = True
    self._pa._streams.remove(self)
  def read(self, nframes):
    if self.read_hook: self.read_hook()
    return struct.pack("%df" % nframes, *([.25] * nframes))

class PyAudio(object):
  def __init__(self):
    self._streams, self.all, self.terminated = set(), [], 0
  def open(self, **kw):
    st = Stream(self, **kw); self._streams.add(st); self.all.append(st)
    return st
  def terminate(self):
    self.terminated += 1

def install():
  pa_mod = types.ModuleType("pyaudio"); pa_mod.PyAudio = PyAudio
  port_mod = types.ModuleType("_portaudio")
  port_mod.write_stream = lambda st, data, n, exc=False: st.written.append(data)
  sys.modules["pyaudio"], sys.modules["_portaudio"] = pa_mod, port_mod

def call_with_timeout(func, secs=3):
  """ (returned?, exception) of func() run in a daemon thread """
  import threading
  box = []
  def target():
    try:
      func(); box.append(None)
    except BaseException as exc:
      box.append(exc)
  th = threading.Thread(target=target); th.daemon = True
  th.start(); th.join(secs)
  return (not th.is_alive()), (box[0] if box else None)
install()
# ------------------------------------------------------------------
from audiolazy import AudioIO

bad = 0
a, b = AudioIO(False), AudioIO(False)     # a records, b plays
rec = a.record(chunk_size=4)
in_read, release = threading.Event(), threading.Event()
reads = []
def hook():
  reads.append(1)
  if len(reads) == 2:                     # second device read: block in it
    in_read.set()
    release.wait(10)
a._pa.all[0].read_hook = hook
th = b.play(rec, chunk_size=4)
in_read.wait(10)                          # the player is inside rec's generator
try:
  a.close()
  print("a.close() returned")
except ValueError as exc:
  print("a.close() raised ValueError:", exc)
  bad += 1
release.set()
b.close()
a.close()                                 # ignored (finished is already True)
print("manager a: input stream closed: %s, terminate calls: %d (1 expected)"
      % (a._pa.all[0].closed, a._pa.terminated))
print("manager b: output stream closed: %s, terminate calls: %d, player alive: %s"
      % (b._pa.all[0].closed, b._pa.terminated, th.is_alive()))
bad += a._pa.terminated != 1 or not a._pa.all[0].closed
print("VIOLATION" if bad else "ok")
sys.exit(1 if bad else 0)
