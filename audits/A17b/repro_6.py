# -*- coding: utf-8 -*-
"""
C17 / finding 6 (recording side) - close() never returns when a recording was
limited to zero samples.  ``RecStream.limit(0)`` wraps the recording generator
in ``islice(gen, 0)``; draining it (``recst.take(inf)`` in close) never starts
the generator, so its ``finally`` (device close + deregistration) never runs
and ``while self._recordings:`` spins for ever.

Run: PYTHONPATH=<audiolazy worktree> python repro_6.py   (exit 1 = violation)
"""
import sys, os
# ---- minimal recording fake of pyaudio + _portaudio (inlined) ----
import types, struct

class Stream(object):
  def __init__(self, pa, **kw):
    self._pa, self._stream, self.kw = pa, self, kw
    self.written, self.closed, self.calls = [], False, []
    self.read_hook = None
  def stop_stream(self): self.calls.append("stop_stream")
  def start_stream(self): self.calls.append("start_stream")
  def close(self):
    self.calls.append("close")
    self.closed = True
    self._pa._streams.remove(self)
  def read(self, nframes):
    if self.read_hook: self.read_hook()
    return struct.pack("%df" % nframes, *([.25] * nframes))

class PyAudio(object):
  def __init__(self):
    self._streams, self.all, self.terminated = set(), [], 0
  def open(self, **kw):
    st = Stream(self, **kw); self._streams.add(st); self.all.append(st)
    return st
  def terminate(self):
    self.terminated += 1

def install():
  pa_mod = types.ModuleType("pyaudio"); pa_mod.PyAudio = PyAudio
  port_mod = types.ModuleType("_portaudio")
  port_mod.write_stream = lambda st, data, n, exc=False: st.written.append(data)
  sys.modules["pyaudio"], sys.modules["_portaudio"] = pa_mod, port_mod

def call_with_timeout(func, secs=3):
  """ (returned?, exception) of func() run in a daemon thread """
  import threading
  box = []
  def target():
    try:
      func(); box.append(None)
    except BaseException as exc:
      box.append(exc)
  th = threading.Thread(target=target); th.daemon = True
  th.start(); th.join(secs)
  return (not th.is_alive()), (box[0] if box else None)
install()
# ------------------------------------------------------------------
from audiolazy import AudioIO

bad = 0
for n in (3, 0):
  m = AudioIO(True)
  rec = m.record(chunk_size=4).limit(n)   # "record n samples"
  th = m.play(rec, chunk_size=4)
  th.join()
  returned, exc = call_with_timeout(m.close)
  print("limit(%d): played chunks: %d, close() returned: %s, input stream "
        "closed: %s, terminate calls: %d"
        % (n, len(m._pa.all[1].written), returned, m._pa.all[0].closed,
           m._pa.terminated))
  bad += (not returned) or m._pa.terminated != 1
print("VIOLATION" if bad else "ok")
sys.stdout.flush()
os._exit(1 if bad else 0)
