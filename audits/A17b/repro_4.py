# -*- coding: utf-8 -*-
"""
C17 / finding 4 - AudioThread is public (in __all__, documented constructor),
but a player started directly (``AudioThread(manager, audio).start()``) never
closes its device stream and makes AudioIO.close() die on an assertion before
the backend is terminated; a second close() is then a no-op, so the backend is
terminated zero times.

Run: PYTHONPATH=<audiolazy worktree> python repro_4.py   (exit 1 = violation)
"""
import sys, os, struct
# ---- minimal recording fake of pyaudio + _portaudio (inlined) ----
import types, struct

class Stream(object):
  def __init__(self, pa, **kw):
    self._pa, self._stream, self.kw = pa, self, kw
    self.written, self.closed, self.calls = [], False, []
    self.read_hook = None
  def stop_stream(self): self.calls.append("stop_stream")
  def start_stream(self): self.calls.append("start_stream")
  def close(self):
    self.calls.append("close")
    self.closed = True
    self._pa._streams.remove(self)
  def read(self, nframes):
    if self.read_hook: self.read_hook()
    return struct.pack("%df" % nframes, *([.25] * nframes))

class PyAudio(object):
  def __init__(self):
    self._streams, self.all, self.terminated = set(), [], 0
  def open(self, **kw):
    st = Stream(self, **kw); self._streams.add(st); self.all.append(st)
    return st
  def terminate(self):
    self.terminated += 1

def install():
  pa_mod = types.ModuleType("pyaudio"); pa_mod.PyAudio = PyAudio
  port_mod = types.ModuleType("_portaudio")
  port_mod.write_stream = lambda st, data, n, exc=False: st.written.append(data)
  sys.modules["pyaudio"], sys.modules["_portaudio"] = pa_mod, port_mod

def call_with_timeout(func, secs=3):
  """ (returned?, exception) of func() run in a daemon thread """
  import threading
  box = []
  def target():
    try:
      func(); box.append(None)
    except BaseException as exc:
      box.append(exc)
  th = threading.Thread(target=target); th.daemon = True
  th.start(); th.join(secs)
  return (not th.is_alive()), (box[0] if box else None)
install()
# ------------------------------------------------------------------
from audiolazy import AudioIO, AudioThread

bad = 0
m = AudioIO(True)
th = AudioThread(m, [1, 2, 3, 4, 5], chunk_size=4)
th.start()
th.join()
st = m._pa.all[0]
print("delivered:", [x for d in st.written for x in struct.unpack("4f", d)])
print("player finished; its device stream closed: %s" % st.closed)
bad += not st.closed
try:
  m.close()
  print("close() returned")
except AssertionError as exc:
  print("close() raised AssertionError (lazy_io.py: assert not self._pa._streams)")
  bad += 1
m.close() # ignored: self.finished is already True
print("after two close() calls: terminate calls = %d, open streams = %d"
      % (m._pa.terminated, len(m._pa._streams)))
bad += m._pa.terminated != 1 or bool(m._pa._streams)
print("VIOLATION" if bad else "ok")
sys.exit(1 if bad else 0)
