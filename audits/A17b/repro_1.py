# -*- coding: utf-8 -*-
"""
C17 / finding 1 - a player that reaches the END of its audio closes its device
stream while the stream is still ACTIVE, without stop_stream().

PortAudio (hence PyAudio, whose Stream.close() is a bare Pa_CloseStream) says:
  Pa_WriteStream  returns once the frames were handed to the host buffer;
  Pa_StopStream   waits until all pending buffers have been played;
  Pa_CloseStream  "If the audio stream is active it discards any pending
                   buffers as if Pa_AbortStream() had been called."
AudioThread.run calls stop_stream() before close() on the stop path and on the
pause path, but not on the normal-end path.  With a backend that keeps that
documented contract (here: ONE chunk of latency), the last chunk of every
played iterable never reaches the device, although AudioIO(wait=True).close()
is supposed to return only "after waiting for all audio".

Run: PYTHONPATH=<audiolazy worktree> python repro_1.py   (exit 1 = violation)
"""
import sys
import types
import struct
import threading


class Stream(object):
  """ Output stream with one chunk of latency, PortAudio close semantics """
  def __init__(self, pa, **kwargs):
    self._pa, self._stream = pa, self
    self.active = True    # PyAudio opens with start=True
    self.closed = False
    self.pending = None   # handed over by write, not yet played
    self.played = []      # what the loudspeaker got
    self.calls = []

  def _write(self, data, nframes):
    assert not self.closed and self.active, "write on stopped/closed stream"
    if self.pending is not None:
      self.played.append(self.pending) # the previous buffer has been played
    self.pending = data

  def stop_stream(self):   # Pa_StopStream: drains
    self.calls.append("stop_stream")
    if self.pending is not None:
      self.played.append(self.pending)
      self.pending = None
    self.active = False

  def start_stream(self):
    self.calls.append("start_stream")
    self.active = True

  def close(self):         # Pa_CloseStream: aborts an active stream
    self.calls.append("close")
    assert not self.closed
    if self.active:
      self.pending = None  # "discards any pending buffers"
    self.active, self.closed = False, True
    self._pa._streams.remove(self)


class PyAudio(object):
  def __init__(self):
    self._streams, self.all, self.terminated = set(), [], 0
  def open(self, **kwargs):
    st = Stream(self, **kwargs)
    self._streams.add(st)
    self.all.append(st)
    return st
  def terminate(self):
    self.terminated += 1

pa_mod = types.ModuleType("pyaudio")
pa_mod.PyAudio, pa_mod.Stream = PyAudio, Stream
port_mod = types.ModuleType("_portaudio")
port_mod.write_stream = lambda st, data, nframes, exc=False: st._write(data, nframes)
sys.modules["pyaudio"], sys.modules["_portaudio"] = pa_mod, port_mod

from audiolazy import AudioIO

CS = 4
def reference(data): # the statement: the iterable, zero padded to a boundary
  data = [float(x) for x in data] + [0.] * (-len(data) % CS)
  return data

def heard(st):
  return [x for d in st.played for x in struct.unpack("%df" % CS, d)]

bad = 0
for nplayers in (1, 2, 3):
  datas = [[100 * p + k + 1 for k in range(10)] for p in range(nplayers)]
  with AudioIO(True) as m:             # wait=True: "waits for all audio"
    for d in datas:
      m.play(d, chunk_size=CS)
  # the with-block has been left: everything is over
  for p, (st, d) in enumerate(zip(m._pa.all, datas)):
    ok = heard(st) == reference(d)
    bad += not ok
    print("players=%d player %d: calls=%s" % (nplayers, p, st.calls))
    print("   expected at the device:", reference(d))
    print("   got                   :", heard(st), "" if ok else
          "  <-- last chunk discarded by close() of an active stream")
  assert m._pa.terminated == 1 and not m._pa._streams

# contrast: the stop path of the same run() does drain before closing
m = AudioIO(False)
gate = threading.Event()
def endless():
  k = 0
  while True:
    k += 1
    if k == 9: # let the main thread go on once two chunks were written
      gate.set()
    yield k
th = m.play(endless(), chunk_size=CS)
gate.wait()
m.close()
st = m._pa.all[0]
print("stop path: calls=%s, written chunks all heard: %s"
      % (st.calls, st.pending is None))

print("VIOLATION" if bad else "ok")
sys.exit(1 if bad else 0)
