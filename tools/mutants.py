#!/venv/bin/python
# -*- coding: utf-8 -*-
"""
Sensitivity self-test: apply small source mutants to a scratch copy of /repo
(never to /repo itself), run the quick check against the copy through
VERIF_REPO, and report which are detected.  The scratch copy lives under a
fresh mktemp directory and is removed right after each mutant.

  tools/mutants.py [C17 ...] [--tier quick] [--only name]
"""
import json
import os
import shutil
import subprocess
import sys
import tempfile
import time

HERE = os.path.dirname(os.path.dirname(os.path.abspath(__file__)))
REPO = "/repo"

# (property, name, file, old, new)
M = []


def mut(prop, name, path, old, new):
  M.append((prop, name, path, old, new))


IO = "audiolazy/lazy_io.py"
ST = "audiolazy/lazy_stream.py"
CO = "audiolazy/lazy_core.py"
FI = "audiolazy/lazy_filters.py"
PO = "audiolazy/lazy_poly.py"
MI = "audiolazy/lazy_misc.py"
AN = "audiolazy/lazy_analysis.py"
IT = "audiolazy/lazy_itertools.py"

# ---- C17
mut("C17", "close-pops-thread", IO,
    "thread = self._threads[0] # Needless to say: pop = deadlock",
    "thread = self._threads.pop(0)")
mut("C17", "thread_finished-without-lock", IO,
    "    with self.lock:\n      self._threads.remove(thread)\n",
    "    if True:\n      self._threads.remove(thread)\n")
mut("C17", "close-drops-join", IO,
    "            thread.stop()\n          thread.join()\n",
    "            thread.stop()\n          self._threads.remove(thread) if "
    "thread in self._threads else None\n")
mut("C17", "terminate-before-join-loop", IO,
    "        self.finished = True # and any call to play would raise "
    "ThreadError\n",
    "        self.finished = True\n        self._pa.terminate()\n")
mut("C17", "finished-set-late", IO,
    "        self.finished = True # and any call to play would raise "
    "ThreadError\n", "        pass\n")
mut("C17", "chunks-ignore-channels", IO,
    "size=self.chunk_size*self.nchannels,", "size=self.chunk_size,")
mut("C17", "stop-does-not-wake", IO,
    "      self.go.set() # Wakes the thread up when paused, \"halting\" "
    "stops it\n", "      self.go.clear()\n")
# equivalent under the statement: dropping the halting re-test after
# go.wait() only lets a stopped player write one more chunk (still a
# chunk-aligned prefix; stop is not promised to be prompt)
mut("C17", "pause-blocks-stopping-thread", IO,
    "      if not self.halting: # Nothing should block a thread that is "
    "stopping\n        self.go.clear()\n", "      self.go.clear()\n")
mut("C17", "halting-check-dropped-in-loop", IO,
    "      if self.halting or not self.go.is_set():",
    "      if not self.go.is_set():")
mut("C17", "stream-closed-twice", IO,
    "        self.stream.close()\n        self.device_manager."
    "thread_finished(self)",
    "        self.stream.close()\n        self.stream.close()\n"
    "        self.device_manager.thread_finished(self)")
mut("C17", "close-does-not-join-exiting", IO,
    "        for thread in self._exiting:\n          thread.join()\n", "")
mut("C17", "padval-float", IO,
    "                        padval=0): # Integer zero fits every format",
    "                        padval=0.):")
mut("C17", "write-skipped-when-paused", IO,
    "      self.write_stream(st, chunk, self.chunk_size, False)\n",
    "      if self.go.is_set():\n"
    "        self.write_stream(st, chunk, self.chunk_size, False)\n")
mut("C17", "close-without-halting-lock-second-terminate", IO,
    "      if not self.finished:  # Ignore all \"close\" calls, but the "
    "first,", "      if True:")
mut("C17", "recordings-not-closed", IO,
    "        while self._recordings:\n          recst = "
    "self._recordings[-1]\n          recst.stop()\n          "
    "for unused in recst._rec: # Ensure it'll be closed, whatever had\n"
    "            pass                    # been done in place with the "
    "stream\n",
    "        del self._recordings[:]\n")

mut("C17", "device-opened-with-default-channels", IO,
    "                                          channels=self.channels,",
    "                                          channels=channels,")
mut("C17", "device-opened-with-float-format", IO,
    "    self.stream = device_manager._pa.open(format=_STRUCT2PYAUDIO[dfmt],",
    "    self.stream = device_manager._pa.open(format=_STRUCT2PYAUDIO['f'],")

mut("C17", "stop-takes-effect-only-when-paused", IO,
    "      if self.halting or not self.go.is_set():",
    "      if not self.go.is_set():")
mut("C17", "close-never-stops-players", IO,
    "          if not self.wait:\n            thread.stop()\n",
    "          pass\n")

mut("C17", "threads-list-shared-between-managers", IO,
    "    self._threads = []\n",
    "    self._threads = globals().setdefault('_ALL_THREADS', [])\n")

# a read-modify-write inside ONE source line, outside the manager lock: only
# a switch between two bytecode instructions of that line shows it (found
# through the "opcodes" pre-emption granularity of engine A)
mut("C17", "threads-list-rewritten-in-one-line-without-lock", IO,
    "    with self.lock:\n      self._threads.remove(thread)\n"
    "      self._exiting = [th for th in self._exiting if th.is_alive()]\n"
    "      self._exiting.append(thread)\n",
    "    with self.lock:\n"
    "      self._exiting = [th for th in self._exiting if th.is_alive()]\n"
    "      self._exiting.append(thread)\n"
    "    self._threads = self._threads[:self._threads.index(thread)] + "
    "self._threads[self._threads.index(thread) + 1:]\n")

# ---- C15
mut("C15", "no-dedupe", CO,
    "      if k not in key_list:\n        key_list.append(k)",
    "      key_list.append(k)")
mut("C15", "old-keys-after-new", CO,
    "      key = self._inv_dict[value] + key",
    "      key = key + self._inv_dict[value]")
mut("C15", "overwritten-keys-not-deleted", CO,
    "    for k in key:\n      if k in self._keys_dict:\n        "
    "MultiKeyDict.__delitem__(self, k)\n", "")
mut("C15", "iter-over-keys", CO,
    "    return iter(self._inv_dict)", "    return iter(self._keys_dict)")
mut("C15", "default-not-removed", CO,
    "    if len(keys) == 1 and value == self.default:\n      "
    "super(StrategyDict, self).__delattr__(\"default\")\n", "")
mut("C15", "default-not-rechosen", CO,
    "    if \"default\" not in vars(self):\n      self.default = value",
    "    if len(self) == 1:\n      self.default = value")
mut("C15", "delitem-keeps-inverse", CO,
    "    del self._keys_dict[key]\n    del self._inv_dict[value]",
    "    del self._keys_dict[key]")
mut("C15", "missing-delete-silent", CO,
    "    key_tuple = self._keys_dict[key]\n    value = self[key]",
    "    if key not in self._keys_dict:\n      return\n"
    "    key_tuple = self._keys_dict[key]\n    value = self[key]")
mut("C15", "key-map-shared-between-instances", CO,
    "    self._keys_dict = {}\n    self._inv_dict = {}",
    "    self._keys_dict = {} if type(self) is not MultiKeyDict else "
    "globals().setdefault('_SHARED_KD', {})\n"
    "    self._inv_dict = {}")
mut("C15", "attribute-not-set-for-aliases", CO,
    "    for k in keys:\n      setattr(self, k, value)",
    "    setattr(self, keys[0], value)")


# ---- C03
mut("C03", "peek-consumes", ST,
    "    return self.copy().take(n=n, constructor=constructor)",
    "    return self.take(n=n, constructor=constructor)")
mut("C03", "copy-returns-alias", ST,
    "    a, b = it.tee(self._data) # 2 generators, not thread-safe\n"
    "    self._data = a\n    return Stream(b)",
    "    return Stream(self._data)")
mut("C03", "take-off-by-one", ST,
    "    return constructor(it.islice(self._data, max(n, 0)))",
    "    return constructor(it.islice(self._data, max(n - 1, 0)))")
mut("C03", "thub-one-more-copy", ST,
    "    self._iters = list(it.tee(iter_self, n))",
    "    self._iters = list(it.tee(iter_self, n + 1))")
mut("C03", "limit-keeps-one-less", ST,
    "    self._data = it.islice(self._data, max(int(round(n)), 0))",
    "    self._data = it.islice(self._data, max(int(round(n)) - 1, 0))")
mut("C03", "skip-drops-one-more", ST,
    "      for _ in xrange(int(round(n))):\n        try:",
    "      for _ in xrange(int(round(n)) + 1):\n        try:")
mut("C03", "tee-shares-one-iterator", IT,
    "    return tuple(Stream(cp) for cp in it.tee(data, n))",
    "    cp = iter(data)\n    return tuple(Stream(cp) for unused in "
    "xrange(n))")
mut("C03", "take-pep479-regression", ST,
    "    return constructor(it.islice(self._data, max(n, 0)))",
    "    return constructor(next(self._data) for _ in xrange(n))")
mut("C03", "hub-copy-consumes-a-use", ST,
    "      a, b = it.tee(self._iters[0])\n      self._iters[0] = a\n"
    "      return Stream(b)",
    "      return Stream(self._iters.pop())")
mut("C03", "take-none-returns-list", ST,
    "    if n is None:\n      return next(self._data)\n    if isinf(n)",
    "    if n is None:\n      return [next(self._data)]\n    if isinf(n)")
mut("C03", "thub-of-scalar-wrapped", ST,
    "  return StreamTeeHub(data, n) if isinstance(data, Iterable) else data",
    "  return StreamTeeHub(data, n) if isinstance(data, Iterable) else "
    "Stream(data)")
mut("C03", "append-drops-first-of-other", ST,
    "    self._data = it.chain(self._data, Stream(*other)._data)",
    "    self._data = it.chain(self._data, Stream(*other).skip(1)._data) if "
    "len(other) == 1 and isinstance(other[0], Stream) else "
    "it.chain(self._data, Stream(*other)._data)")
mut("C03", "take-inf-leaves-last", ST,
    "    if isinf(n) and n > 0:\n      return constructor(self._data)",
    "    if isinf(n) and n > 0:\n      return constructor(self._data)[:-1]")
mut("C03", "hub-pop-from-front-shared", ST,
    "      return self._iters.pop()\n",
    "      return self._iters[0] if len(self._iters) > 1 else "
    "self._iters.pop()\n")


# ---- C16
mut("C16", "count-starts-at-zero", ST, "      count = 0.5\n",
    "      count = 0.\n")
mut("C16", "count-reset-after-start-drift", ST,
    "          count -= delta # Delta might be float (less error "
    "propagation)", "          count = 0.5")
mut("C16", "termination-ignores-pending", ST,
    "        if not (self.keep or self._playing or self._not_playing):",
    "        if not (self.keep or self._playing):")
mut("C16", "finished-events-not-pruned", ST,
    "          for snd in to_remove:\n            self._playing.remove(snd)",
    "          pass")
mut("C16", "negative-delta-accepted", ST,
    "    if delta < 0:\n      raise ValueError", "    if False:\n      raise ValueError")
mut("C16", "controlstream-caches-value", ST,
    "      while True:\n        yield self.value",
    "      v = self.value\n      while True:\n        yield v")
mut("C16", "controlstream-one-sample-lag", ST,
    "      while True:\n        yield self.value",
    "      prev = self.value\n      while True:\n        cur = self.value\n"
    "        yield prev\n        prev = cur")
mut("C16", "mutable-zero-regression", ST,
    "            data = data + next(snd) # Not \"+=\": zero might be mutable",
    "            data += next(snd)")
mut("C16", "count-rounds-integer-time", ST,
    "        count += 1.\n", "        count = int(count) + 1.5\n")
mut("C16", "add-two-step-placeholder", ST,
    "    self._not_playing.append((delta, iter(data)))",
    "    self._not_playing.append((delta, None))\n"
    "    self._not_playing[-1] = (delta, iter(data))")
mut("C16", "start-only-one-event-per-sample", ST,
    "        while self._not_playing and (count >= self._not_playing[0][0]):",
    "        if self._not_playing and (count >= self._not_playing[0][0]):")
mut("C16", "keep-ignored", ST,
    "        if not (self.keep or self._playing or self._not_playing):",
    "        if not (self._playing or self._not_playing):")



# ---- C02
mut("C02", "stream-init-materialises", ST,
    "        self._data = iter(dargs[0])\n",
    "        self._data = iter(list(it.islice(dargs[0], 10 ** 4)))\n")
mut("C02", "blocks-reads-one-ahead", MI,
    "  if hop <= size:\n    for el in seq:\n      res.append(el)\n"
    "      if idx == last_idx:\n        yield res",
    "  if hop <= size:\n    seq = _ahead(seq)\n    for el in seq:\n"
    "      res.append(el)\n      if idx == last_idx:\n        yield res")
mut("C02", "filter-loop-prefetches-input", FI,
    "    arguments = [iter(seq), memory, zero]",
    "    arguments = [_ahead(iter(seq)), memory, zero]")
mut("C02", "parallel-filter-lists-input", FI,
    "    arg0 = thub(args[0], len(self))",
    "    arg0 = thub(list(it.islice(args[0], 10 ** 4)), len(self))")
mut("C02", "overlap-add-collects-blocks-first", AN,
    "  for blk in xmap(iter, blk_sig):\n    mem[:s_h] = xmap(add, mem[hop:], "
    "blk)\n    mem[s_h:] = blk # Remaining elements",
    "  for blk in xmap(iter, list(__import__('itertools').islice(blk_sig, "
    "10 ** 3))):\n"
    "    mem[:s_h] = xmap(add, mem[hop:], blk)\n"
    "    mem[s_h:] = blk # Remaining elements")
mut("C02", "stft-lists-blocks", AN,
    "      if wnd is None:\n        for blk in Stream(sig).blocks(size=size, "
    "hop=hop):",
    "      if wnd is None:\n        for blk in list(__import__('itertools')"
    ".islice(Stream(sig).blocks(size=size, hop=hop).map(list), 10 ** 3)):")
mut("C02", "resample-takes-order-plus-one", PO,
    "  data.extend(sig.take(rint(threshold)))",
    "  data.extend(sig.take(order + 1))")
mut("C02", "skip-is-eager", ST,
    "    self._data = skipper(self._data)\n    return self",
    "    for _ in xrange(int(round(n))):\n      next(self._data, None)\n"
    "    return self")
mut("C02", "limit-reads-one-extra", ST,
    "    self._data = it.islice(self._data, max(int(round(n)), 0))",
    "    self._data = _limit_ahead(self._data, max(int(round(n)), 0))")
mut("C02", "streamix-add-primes-event", ST,
    "    self._not_playing.append((delta, iter(data)))",
    "    data = iter(data)\n    first = list(it.islice(data, 1))\n"
    "    self._not_playing.append((delta, it.chain(first, data)))")
mut("C02", "maverage-deque-buffers-ahead", AN,
    "    for el in sig:\n      mean_value -= data.popleft()",
    "    for el in _ahead(iter(sig)):\n      mean_value -= data.popleft()")
mut("C02", "zcross-reads-ahead", AN,
    "  neg_hyst = -hysteresis\n  seq_iter = iter(seq)",
    "  neg_hyst = -hysteresis\n  seq_iter = _ahead(iter(seq))")
mut("C02", "tostream-materialises-head", ST,
    "    return Stream(func(*args, **kwargs))\n",
    "    gen = iter(func(*args, **kwargs))\n"
    "    head = list(it.islice(gen, 1))\n"
    "    return Stream(it.chain(head, gen))\n")
mut("C02", "copy-pre-reads", ST,
    "    a, b = it.tee(self._data) # 2 generators, not thread-safe\n"
    "    self._data = a",
    "    a, b = it.tee(self._data) # 2 generators, not thread-safe\n"
    "    c = a.__copy__()\n    next(c, None)\n    self._data = a")
mut("C02", "record-reads-chunk-at-open", IO,
    "    self._recordings.append(input_stream)\n    return input_stream",
    "    self._recordings.append(input_stream)\n    input_stream.peek(1)\n"
    "    return input_stream")
mut("C02", "thub-drains-a-block", ST,
    "    self._iters = list(it.tee(iter_self, n))",
    "    self._iters = list(it.tee(_ahead(iter_self, 4), n))")
mut("C02", "lowpass-stream-cutoff-eager", FI,
    "def lowpass(cutoff):\n  cutoff = thub(cutoff, 1)\n  x = 2 - "
    "cos(cutoff)",
    "def lowpass(cutoff):\n  if isinstance(cutoff, Iterable):\n"
    "    cutoff = Stream(list(it.islice(cutoff, 256)))\n"
    "  cutoff = thub(cutoff, 1)\n  x = 2 - cos(cutoff)")
mut("C02", "zero-pad-buffers-input", MI,
    "  for item in seq:\n    yield item\n  for unused in xrange(right):",
    "  for item in _ahead(iter(seq), 2):\n    yield item\n"
    "  for unused in xrange(right):")
mut("C02", "chunks-struct-two-blocks", IO,
    "  for block in blocks(seq, size, padval=padval):\n    yield "
    "s.pack(*block)",
    "  for block in _ahead(map(tuple, blocks(seq, size, padval=padval))):\n"
    "    yield s.pack(*block)")

# ---- C06
mut("C06", "thub-too-few-copies", PO,
    "    thubbed_self = [(k, thub(v, len(other._data)))",
    "    thubbed_self = [(k, thub(v, max(1, len(other._data) - 1)))")
mut("C06", "coefficient-read-hoisted-out-of-loop", FI,
    '        data_sum.append("next(b{idx}) * d{idx}".format(idx=delay))',
    '        data_sum.append("vb{idx} * d{idx}".format(idx=delay))')
mut("C06", "a0-divides-numerator-only", FI,
    "      den *= inv_gain.copy()\n", "      inv_gain.copy()\n")
mut("C06", "swapped-b-a-arguments", FI,
    '      arg_names.extend("b{idx}".format(idx=idx) for idx in '
    'num_iterables)\n      arg_names.extend("a{idx}".format(idx=idx) for '
    'idx in den_iterables)',
    '      arg_names.extend("a{idx}".format(idx=idx) for idx in '
    'den_iterables)\n      arg_names.extend("b{idx}".format(idx=idx) for '
    'idx in num_iterables)')
mut("C06", "pep479-regression", FI,
    '      gen_func += ["  except StopIteration:", # A coefficient Stream '
    'ended\n                   "    return"]              # (see PEP 479)',
    '      gen_func += ["  except ZeroDivisionError:",\n'
    '                   "    return"]')
mut("C06", "coefficient-read-twice", FI,
    '        data_sum.append("-next(a{idx}) * m{idx}".format(idx=delay))',
    '        data_sum.append("-(next(a{idx}), next(a{idx}))[1] * m{idx}"'
    '.format(idx=delay))')
mut("C06", "input-prefetched", FI,
    "    arguments = [iter(seq), memory, zero]",
    "    arguments = [_prefetch(iter(seq)), memory, zero]")
mut("C06", "stream-coefficient-delayed-by-one", FI,
    "    arguments.extend(iter(self.numpoly[idx]) for idx in num_iterables)",
    "    arguments.extend(it.chain([next(iter(self.numpoly[idx]))] * 0, "
    "iter(self.numpoly[idx])) for idx in num_iterables)")
mut("C06", "den-stream-sign-flipped", FI,
    '        data_sum.append("-next(a{idx}) * m{idx}".format(idx=delay))',
    '        data_sum.append("next(a{idx}) * m{idx}".format(idx=delay))')
mut("C06", "add-shortcut-wrong", FI,
    "        return ZFilter(self.numpoly + other.numpoly, self.denpoly)",
    "        return ZFilter(self.numpoly + other.numpoly, "
    "self.denpoly * 2)")
mut("C06", "mul-keeps-only-first-den", FI,
    "      return ZFilter(self.numpoly * other.numpoly,\n"
    "                     self.denpoly * other.denpoly)",
    "      return ZFilter(self.numpoly * other.numpoly,\n"
    "                     self.denpoly * other.denpoly.copy() if False else "
    "self.denpoly * other.denpoly) if len(other.denpoly) < 3 else "
    "ZFilter(self.numpoly * other.numpoly, self.denpoly)")

mut("C06", "pow-shares-one-copy", PO,
    "[self.copy() for unused in xrange(other - 1)]", "[self.copy()] * "
    "(other - 1)")
mut("C06", "sub-forgets-negation", FI,
    "  def __sub__(self, other):\n    return self + (-other)\n\n"
    "  def __mul__(self, other):\n    if isinstance(other, ZFilter):",
    "  def __sub__(self, other):\n    return self + other\n\n"
    "  def __mul__(self, other):\n    if isinstance(other, ZFilter):")
mut("C06", "div-swaps-denominators", FI,
    "      return ZFilter(self.numpoly * other.denpoly,\n"
    "                     self.denpoly * other.numpoly)",
    "      return ZFilter(self.numpoly * other.numpoly,\n"
    "                     self.denpoly * other.denpoly)")


mut("C16", "pending-queue-shared-between-mixers", ST,
    "    self._not_playing = deque() # Tuples (integer delta, iterable)",
    "    self._not_playing = globals().setdefault('_Q', deque())")


# equivalent under the statement (differs only at exact half-sample ties,
# where "nearest" allows both): "(count > self._not_playing[0][0])"


AHEAD_HELPER = """

def _ahead(seq, k=1):
  # mutant helper: keeps k items of read-ahead
  import collections
  seq = iter(seq)
  buf = collections.deque()
  for el in seq:
    buf.append(el)
    if len(buf) > k:
      yield buf.popleft()
  while buf:
    yield buf.popleft()


def _limit_ahead(data, n):
  for idx, el in enumerate(data):
    if idx >= n:
      return
    yield el
"""


def run_one(prop, name, path, old, new, tier, runs=None):
  tmp = tempfile.mkdtemp(prefix="verif-mut-")
  try:
    dst = os.path.join(tmp, "repo")
    shutil.copytree(REPO, dst, ignore=shutil.ignore_patterns(
      ".git", "__pycache__", "*.pyc", "docs", "examples", "images", "math"))
    fp = os.path.join(dst, path)
    src = open(fp).read()
    if src.count(old) != 1:
      return {"mutant": name, "status": "NOT-APPLICABLE (%d matches)"
              % src.count(old)}
    src = src.replace(old, new)
    if "_ahead(" in new or "_limit_ahead(" in new:
      src += AHEAD_HELPER
    open(fp, "w").write(src)
    env = dict(os.environ)
    env["VERIF_REPO"] = dst
    env["VERIF_REPLAY_DIR"] = os.path.join(tmp, "replays")
    cmd = [os.path.join(HERE, "check"), prop, "--tier", tier, "--no-evidence"]
    if runs:
      cmd += ["--runs", str(runs)]
    t0 = time.time()
    out = subprocess.run(cmd, env=env, stdout=subprocess.PIPE,
                         stderr=subprocess.STDOUT, timeout=1800)
    text = out.stdout.decode("utf-8", "replace")
    viol = [ln for ln in text.splitlines() if ln.startswith(("VIOLATION",
                                                            "  class="))]
    status = {0: "MISSED", 1: "DETECTED", 2: "HARNESS-ERROR"}.get(
      out.returncode, "EXIT-%d" % out.returncode)
    return {"mutant": name, "status": status,
            "wall_s": round(time.time() - t0, 1),
            "report": " ".join(viol)[:300] if viol else text[-400:]}
  finally:
    shutil.rmtree(tmp, ignore_errors=True)

# ---- the repairs of session 3 taken back (each must be reported again)
mut("C06", "repair-undone-linearize-tee", FI,
    "          if isinstance(v, Stream): # Needed twice: once for each "
    "neighbour\n            v = thub(v, 2)\n", "")
mut("C06", "repair-undone-rational-gain", FI,
    'expr = "({expr}) / ({gain})".format(expr=expr, gain=gain)',
    'expr = "({expr}) / {gain}".format(expr=expr, gain=gain)')
mut("C06", "repair-undone-call-keeps-the-filter", FI,
    '      den = Poly(self.denpoly) # A new Poly: "self" must be kept as it '
    'is\n', "      den = self.denpoly\n")
mut("C06", "repair-undone-poly-division-tee", PO,
    "        value = thub(value, len(self)) # Needed once for each term\n",
    "")
mut("C06", "repair-undone-substitution-copy", FI,
    "      return sum(v * seq.copy() ** -k for k, v in "
    "self.numpoly.terms()) / \\\n             sum(v * seq.copy() ** -k",
    "      return sum(v * seq ** -k for k, v in "
    "self.numpoly.terms()) / \\\n             sum(v * seq ** -k")
mut("C02", "repair-undone-hub-attribute-broadcast", ST,
    "    return Stream(getattr(a, name) for a in iter(self))",
    "    return Stream(getattr(a, name) for a in self._data)")
mut("C02", "repair-undone-hub-call-broadcast", ST,
    "    return Stream(a(*args, **kwargs) for a in iter(self))",
    "    return Stream(a(*args, **kwargs) for a in self._data)")
mut("C17", "repair-undone-recordings-lock", IO,
    '    with self.lock: # A "record" call might be adding another one right '
    'now\n      self._recordings = [rec for rec in self._recordings if rec '
    'is not recst]',
    '    if True:\n      self._recordings = [rec for rec in self._recordings '
    'if rec is not recst]')
mut("C17", "repair-undone-close-drains-generator", IO,
    "          for unused in recst._rec: # Ensure it'll be closed, whatever "
    "had\n            pass                    # been done in place with the "
    "stream\n",
    "          recst.take(float('inf'))\n")


def main():
  args = sys.argv[1:]
  tier = "quick"
  only = None
  runs = None
  props = []
  i = 0
  while i < len(args):
    if args[i] == "--tier":
      tier = args[i + 1]
      i += 2
    elif args[i] == "--only":
      only = args[i + 1]
      i += 2
    elif args[i] == "--runs":
      runs = int(args[i + 1])
      i += 2
    else:
      props.append(args[i].upper())
      i += 1
  results = []
  for prop, name, path, old, new in M:
    if props and prop not in props:
      continue
    if only and only != name:
      continue
    r = run_one(prop, name, path, old, new, tier, runs)
    r["property"] = prop
    results.append(r)
    print("%-4s %-45s %-14s %6ss  %s" % (prop, name, r["status"],
                                          r.get("wall_s", "-"),
                                          r.get("report", "")[:160]))
    sys.stdout.flush()
  det = sum(1 for r in results if r["status"] == "DETECTED")
  print("detected %d of %d" % (det, len(results)))
  return 0


if __name__ == "__main__":
  sys.exit(main())
