#!/venv/bin/python
# -*- coding: utf-8 -*-
"""
Cross-validation of the fake PyAudio backend and of the C17 device-history
oracle against REAL, unsimulated threads: the real lazy_io code (nothing
patched but sys.modules[pyaudio/_portaudio]) plays a few finite iterables with
wait=True under whatever schedule the OS produces; the recorded device
history must satisfy the same framing / content / shutdown conditions the
simulated runs are judged by.  Informational (not a registered check).
"""
import os
import struct
import sys
import threading

HERE = os.path.dirname(os.path.dirname(os.path.abspath(__file__)))
sys.path.insert(0, HERE)
sys.dont_write_bytecode = True
from sim import kernel, backend  # noqa: E402

kernel.import_repo()
backend.install_fake_modules()
world = backend.World(None)
backend.set_world(world)
import audiolazy.lazy_io as lio  # noqa: E402

specs = [([float(i % 50) for i in range(n)], cs) for n, cs in
         [(10, 4), (7, 1), (0, 3), (64, 8), (5, 5)]]
done = threading.Event()


def body():
  with lio.AudioIO(True) as aio:
    for data, cs in specs:
      aio.play(list(data), chunk_size=cs)
  done.set()


t = threading.Thread(target=body)
t.daemon = True
t.start()
if not done.wait(60):
  print("real-thread smoke: close() did not return within 60 s")
  sys.exit(1)
ok = True
for st, (data, cs) in zip(world.streams, specs):
  got = []
  for chunk, nframes in st.writes:
    ok &= nframes == cs and len(chunk) == 4 * cs
    got.extend(struct.unpack("%df" % cs, chunk))
  want = data + [0.] * ((-len(data)) % cs)
  ok &= got == want and st.closed == 1
ok &= world.managers[0].terminated == 1
print("real-thread smoke: %s (%d streams, %d device events)"
      % ("ok" if ok else "MISMATCH", len(world.streams), len(world.history)))
sys.exit(0 if ok else 1)
