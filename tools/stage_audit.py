#!/venv/bin/python
# -*- coding: utf-8 -*-
"""
Audit of the C02 stage registry: every stage family, built alone over endless
simulator-owned sources, must really deliver outputs (a registry entry whose
real constructor only raises would test nothing).
"""
import os
import sys
HERE = os.path.dirname(os.path.dirname(os.path.abspath(__file__)))
sys.path.insert(0, HERE)
sys.dont_write_bytecode = True
from sim import kernel  # noqa: E402
kernel.import_repo()
from sim.props import c02, c02_stages  # noqa: E402
from sim.kernel import Decider  # noqa: E402

prop = c02.C02()
prop.setup()
bad = 0
for name in c02_stages.ORDER:
  st = c02_stages.STAGES[name]
  for trial in range(6):
    W = Decider(seed=trial)
    p = st["params"](W)
    kinds = st["extra"]
    if kinds == "var-num":
      kinds = ("num",) * (len(p["deltas"]) - 1)
    srcs = {"1": {"kind": "num", "len": None}}
    node_in = [{"src": 1}]
    if st["cons"] == "blk":
      node_in = [{"st": "blocks", "p": {"size": 3, "hop": 2},
                  "in": [{"src": 1}]}]
    for k in kinds:
      sid = len(srcs) + 1
      srcs[str(sid)] = {"kind": k, "len": p["size"] if k == "wnd" else None}
      node_in.append({"src": sid})
    wl = {"srcs": srcs, "base": {"st": name, "p": p, "in": node_in},
          "fan": "none", "tails": [None]}
    res = prop.run(wl, Decider(replay=[5, 0, 1, 7, 0, 1, 7, 0, 1, 7, 0, 1, 7]),
                   want_sample=True)
    trace = res.sample["trace"]
    raised = [t for t in trace if "real raise" in t or "real stall" in t]
    got = [t for t in trace if "real ok" in t]
    status = "ok"
    if res.violation is not None:
      status = "VIOLATION %s" % res.violation.signature
    elif raised or not got:
      status = "RAISES/NO-OUTPUT"
    if status != "ok":
      bad += 1
      print("%-26s %-8s %s %s" % (name, status, p, (raised or trace)[-1:]))
      break
print("%d stage families audited, %d problematic" % (len(c02_stages.ORDER),
                                                     bad))
sys.exit(1 if bad else 0)
