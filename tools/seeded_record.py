#!/venv/bin/python
# -*- coding: utf-8 -*-
"""
Merge the JSON lines printed by tools/seeded.py into the meta.json of every
seeded change ("verified" block) and write seeded/RESULTS.md.
  tools/seeded_record.py log1 [log2 ...]      (later logs override earlier)
"""
import json
import os
import sys

HERE = os.path.dirname(os.path.dirname(os.path.abspath(__file__)))
SD = os.path.join(HERE, "seeded")

rows = {}
for path in sys.argv[1:]:
  for line in open(path):
    if line.startswith("{"):
      d = json.loads(line)
      old = rows.get(d["name"], {})
      for k, v in d.items():
        old[k] = v
      rows[d["name"]] = old

NOTES = {}
notes_path = os.path.join(SD, "NOTES.json")
if os.path.exists(notes_path):
  NOTES = json.load(open(notes_path))

out = ["# Seeded changes (independent sub-agents) and what catches them", "",
       "Each change was confirmed on a scratch copy: `demo.py` exits 0 on the "
       "pristine tree and non-zero with the patch, the set of failing tests "
       "of the existing suite is identical with and without it, and the "
       "property's quick check was run against the patched copy.", "",
       "| change | property | what it does (agent's summary) | needs | quick "
       "check | reported as |", "|---|---|---|---|---|---|"]
det = tot = 0
for name in sorted(os.listdir(SD)):
  mp = os.path.join(SD, name, "meta.json")
  if not os.path.exists(mp):
    continue
  meta = json.load(open(mp))
  r = rows.get(name)
  if r:
    meta["verified"] = {
      "demo_pristine_rc": r.get("demo_pristine_rc"),
      "demo_changed_rc": r.get("demo_changed_rc"),
      "suite_failing_set_unchanged": r.get("suite_same"),
      "check": r.get("check"), "check_report": r.get("report"),
      "how": "tools/seeded.py on a scratch copy of /repo (VERIF_REPO), "
             "removed afterwards"}
    if name in NOTES:
      meta["verified"]["note"] = NOTES[name]
    json.dump(meta, open(mp, "w"), indent=1, sort_keys=True)
    open(mp, "a").write("\n")
  v = meta.get("verified", {})
  tot += 1
  if v.get("check") == "DETECTED":
    det += 1
  rep = (v.get("check_report") or "")
  sig = ""
  if "class=" in rep:
    sig = rep[rep.index("class="):].split(" detail")[0][:70]
  status = v.get("check", "?")
  if name in NOTES:
    status += " - " + NOTES[name]
  clean = lambda t: str(t or "").replace("|", "/").replace("\n", " ")[:170]
  out.append("| %s | %s | %s | %s | %s | %s |" % (
    name, meta.get("property"), clean(meta.get("summary")),
    clean(meta.get("needs")), status, sig))
out += ["", "%d of %d detected by the quick tier of the named property's "
        "check." % (det, tot), ""]
open(os.path.join(SD, "RESULTS.md"), "w").write("\n".join(out))
print("%d of %d detected; wrote seeded/RESULTS.md" % (det, tot))
