#!/venv/bin/python
# -*- coding: utf-8 -*-
"""
Shows every repaired defect against the REAL code, without any simulator:
each snippet is run in a fresh interpreter once against the pinned snapshot
(git commit a6f426e exported to a scratch directory, removed afterwards) and
once against /repo's working tree.  Expected: "DEFECT" on the snapshot, "ok"
on the repaired tree.   tools/demo_fixed_defects.py
"""
import os
import shutil
import subprocess
import sys
import tempfile

REPO = "/repo"
SNAPSHOT = "a6f426e"

PRE = r'''
import sys, types, threading, struct, itertools
from fractions import Fraction
pa = types.ModuleType("pyaudio"); po = types.ModuleType("_portaudio")
LOG = []
class FS(object):
    def __init__(s, kw): s.kw = kw; s._stream = s; s.closed = 0
    def close(s): s.closed += 1; LOG.append(("close", id(s)))
    def stop_stream(s): pass
    def start_stream(s): pass
    def read(s, n, *a, **k): return struct.pack("%df" % n, *([0.] * n))
class PA(object):
    def __init__(s): s._streams = set(); s.term = 0
    def open(s, **kw):
        st = FS(kw); s._streams.add(st); st.pa = s
        oc = st.close
        def close(): s._streams.discard(st); oc()
        st.close = close
        return st
    def terminate(s): s.term += 1
pa.PyAudio = PA
po.write_stream = lambda st, data, n, f: LOG.append(("write", len(data), n))
sys.modules["pyaudio"] = pa; sys.modules["_portaudio"] = po
import warnings; warnings.simplefilter("ignore")
import audiolazy
from audiolazy import *
from audiolazy.lazy_io import AudioIO
def within(seconds, fn):
    box = []
    t = threading.Thread(target=lambda: box.append(fn())); t.daemon = True
    t.start(); t.join(seconds)
    return not t.is_alive()
'''

SNIPPETS = [
  ("1 C17 stop() never wakes a paused player: play; pause; close hangs", r'''
aio = AudioIO()
th = aio.play(Stream(0.), chunk_size=1)
import time; time.sleep(.05)
th.pause(); time.sleep(.05)
print("ok" if within(3, aio.close) else "DEFECT: close() did not return")
'''),
  ("2 C17 integer format + partial last chunk kills the player", r'''
aio = AudioIO(True)
th = aio.play([1, 2, 3, 4, 5], chunk_size=2, channels=2, dfmt="h")
th.join(3)
writes = [e for e in LOG if e[0] == "write"]
print("ok" if len(writes) == 2 else "DEFECT: %d chunks reached the device, "
      "the padded last one is missing" % len(writes))
aio.finished = True
'''),
  ("3 C17 close() returns while a just-deregistered player is still alive",
   r'''
import time
gate = threading.Event()
def audio():
    gate.wait(5)
    yield 0.
class SlowLock(object):          # the player is slow to leave its last step
    def __init__(s): s.l = threading.Lock()
    def __enter__(s): s.l.acquire()
    def __exit__(s, *a): time.sleep(.6); s.l.release()
    def acquire(s, *a): return s.l.acquire(*a)
    def release(s): s.l.release()
aio = AudioIO(True)
th = aio.play(audio(), chunk_size=1)
th.lock = SlowLock()
gate.set(); time.sleep(.2)       # the player deregisters, then lingers
aio.close()
print("DEFECT: close() returned, player thread still alive"
      if th.is_alive() else "ok")
'''),
  ("4 C03 take(n) with fewer than n items left", r'''
try:
    print("ok" if Stream([1, 2]).take(3) == [1, 2] else "DEFECT: wrong items")
except RuntimeError as e:
    print("DEFECT: RuntimeError(%s)" % e)
'''),
  ("5 C16 Streamix mutates a mutable zero value", r'''
class Acc(object):
    def __init__(s, v=0): s.v = v
    def __add__(s, o): return Acc(s.v + o)
    def __iadd__(s, o): s.v += o; return s
m = Streamix(zero=Acc())
m.add(1, [7])
out = [a.v for a in m.take(2)]
print("ok" if out == [0, 7] else "DEFECT: samples are %r, not [0, 7]" % out)
'''),
  ("6 C06 output must end (not raise) when a coefficient stream ends", r'''
try:
    out = list((1 + Stream([1, 2, 3]) * z ** -1)(range(8)))
    print("ok" if len(out) == 3 else "DEFECT: %d outputs" % len(out))
except RuntimeError as e:
    print("DEFECT: RuntimeError(%s)" % e)
'''),
  ("7 C17 two recording streams open at close()", r'''
aio = AudioIO()
aio.record(chunk_size=2); aio.record(chunk_size=2)
try:
    aio.close(); print("ok")
except TypeError as e:
    print("DEFECT: close() raised TypeError"); aio.finished = True
'''),
  ("8 C06 (filter with Stream coefficients) ** 3 mixes samples", r'''
s = lambda: Stream(Fraction(k) for k in (2, 3, 5, 7, 11))
cube = ((s() + 2 * z ** -1) ** 3).numpoly
try:
    rows = list(itertools.islice(zip(cube[0], cube[1], cube[2]), 3))
except RuntimeError:
    rows = "RuntimeError"
want = [(8, 24, 24), (27, 54, 36), (125, 150, 60)]
print("ok" if rows == want else "DEFECT: coefficients of the cube per "
      "sample are %r, not %r" % (rows, want))
'''),
  ("9 C17 nchannels= opens a mono device for stereo chunks", r'''
aio = AudioIO(True)
th = aio.play([1, 2, 3, 4], chunk_size=1, nchannels=2, dfmt="h")
ch = th.stream.kw["channels"]
th.join(3); aio.finished = True
print("ok" if ch == 2 else "DEFECT: device opened with channels=%d" % ch)
'''),
  ("10 C06 linearize() of a fractional delay uses a Stream coefficient twice",
   r'''
reads = [0]
def src():
    while True:
        reads[0] += 1
        yield Fraction(reads[0])
g = (Stream(src()) * z ** -1.5).linearize()
out = g([Fraction(1)] * 6, zero=Fraction(0)).take(5)
want = [0, 1, 3, 4, 5]     # .5*s[n]*x[n-1] + .5*s[n]*x[n-2], s[n] = n + 1
print("ok" if out == want and reads[0] == 5 else
      "DEFECT: outputs %r (expected %r), %d coefficient reads for 5 samples"
      % (out, want, reads[0]))
'''),
  ("12 C06 a constant Fraction output gain a0 is divided piecewise", r"""
out = list(ZFilter([1], [Fraction(1, 3)])([Fraction(1), Fraction(1)],
                                            zero=Fraction(0)))
print("ok" if out == [3, 3] else
      "DEFECT: y = x / a0 with a0 = 1/3 gives %r (expected [3, 3])" % (out,))
"""),
  ("13 C06 calling a filter with a Stream a0 removes a0 from the filter", r"""
a0 = thub(Stream(2., 4.), 2)
f = ZFilter([1], [a0, .5])
first = f([1., 1, 1, 1]).take(4)
try:
    second = f([1., 1, 1, 1]).take(4)
    print("ok" if second == first else "DEFECT: second call gave %r" % second)
except ZeroDivisionError as exc:
    print("DEFECT: second call raised %r; the filter's denominator is now "
          "%s" % (exc, f.denpoly))
"""),
  ("14 C06 Poly / (one-term Poly with a Stream coefficient) shares the Stream", r"""
reads = [0]
def src():
    i = 0
    while True:
        reads[0] += 1; i += 1; yield Fraction(i)
num = Poly([Fraction(1), Fraction(2), Fraction(3)]) / Poly({0: Stream(src())})
out = ZFilter(num)(Stream(Fraction(1)), zero=Fraction(0)).take(4)
want = [Fraction(1), Fraction(3, 2), Fraction(2), Fraction(3, 2)]
print("ok" if out == want and reads[0] == 4 else
      "DEFECT: y = (x[n] + 2x[n-1] + 3x[n-2]) / g[n] gives %s, %d reads of g "
      "for 4 samples" % ([str(v) for v in out], reads[0]))
"""),
  ("15 C02 hub.real + hub.imag reads behind the hub's copies", r"""
reads = [0]
def src():
    for i in range(100):
        reads[0] += 1; yield complex(i, -i)
h = thub(src(), 2)
out = (h.real + h.imag).take(5)
print("ok" if out == [0.] * 5 and reads[0] == 5 else
      "DEFECT: re + im of (i - i j) gives %r, %d source reads for 5 outputs"
      % (out, reads[0]))
"""),
  ("16 C06 f(g) with a time-varying g uses g once per term without a copy", r"""
reads = [0]
def src():
    i = 1
    while True:
        reads[0] += 1; i += 1; yield Fraction(i)
f = 1 + z ** -1 + z ** -2
try:
    h = f(Stream(src()) * z)        # 1 + z^-1 / c[n] + z^-2 / c[n]^2
    out = h([Fraction(1)] * 4, zero=Fraction(0)).take(4)
except Exception as exc:
    print("DEFECT: raised %s" % type(exc).__name__)
    raise SystemExit
c = [Fraction(i) for i in (2, 3, 4, 5)]
want = [1, 1 + 1 / c[1], 1 + 1 / c[2] + 1 / c[2] ** 2,
        1 + 1 / c[3] + 1 / c[3] ** 2]
print("ok" if out == want and reads[0] == 4 else
      "DEFECT: outputs %s (expected %s), %d reads of c for 4 samples"
      % ([str(v) for v in out], [str(v) for v in want], reads[0]))
""", "6daa97e~1"),
  ("17 C17 close() spins for ever after a recording was shaped in place", r"""
aio = AudioIO(True)
rec = aio.record(chunk_size=4)
keep = rec.copy()
aio.play(rec.limit(8), chunk_size=4)
print("ok" if within(3, aio.close) else
      "DEFECT: close() did not return within 3 s (busy loop over the "
      "recordings list)")
import os; os._exit(0)
"""),
]


# genuine, NOT repaired (known_findings.json status=known): expected to show
# on the pinned snapshot and on /repo alike
KNOWN = [
  ("K1 C17 close(wait=True) never returns for a player left paused", r"""
import time
po.write_stream = lambda st, data, n, f: time.sleep(.01)   # a real-time device
aio = AudioIO(True)
th = aio.play([0.] * 4000, chunk_size=4)
time.sleep(.05)
th.pause(); time.sleep(.05)
print("ok" if within(3, aio.close) else
      "DEFECT: close() of a wait=True manager did not return within 3 s "
      "(player parked in go.wait())")
th.stop()
"""),
]


def run(root, code):
  env = dict(os.environ)
  env["PYTHONPATH"] = root
  env["PYTHONDONTWRITEBYTECODE"] = "1"
  out = subprocess.run([sys.executable, "-c", PRE + code], env=env,
                       stdout=subprocess.PIPE, stderr=subprocess.STDOUT,
                       timeout=60)
  lines = out.stdout.decode("utf-8", "replace").strip().splitlines()
  return lines[-1] if lines else "<no output, rc %d>" % out.returncode


def main():
  tmp = tempfile.mkdtemp(prefix="verif-snapshot-")
  try:
    old = os.path.join(tmp, "old")
    os.makedirs(old)
    tar = subprocess.run(["git", "-C", REPO, "archive", SNAPSHOT,
                          "audiolazy"], stdout=subprocess.PIPE, check=True)
    subprocess.run(["tar", "-x", "-C", old], input=tar.stdout, check=True)
    bad = 0
    for entry in SNIPPETS:
      title, code = entry[0], entry[1]
      base, label = old, "pinned snapshot "
      if len(entry) > 2:
        # a defect that an earlier defect hides on the pinned snapshot is
        # shown against the parent of its own fix commit instead
        base = os.path.join(tmp, "at-" + entry[2].replace("~", "-"))
        os.makedirs(base)
        tar = subprocess.run(["git", "-C", REPO, "archive", entry[2],
                              "audiolazy"], stdout=subprocess.PIPE,
                             check=True)
        subprocess.run(["tar", "-x", "-C", base], input=tar.stdout,
                       check=True)
        label = "before its fix  "
      a, b = run(base, code), run(REPO, code)
      print("%s\n    %s: %s\n    repaired tree   : %s"
            % (title, label, a, b))
      if not a.startswith("DEFECT") or b != "ok":
        bad += 1
    for title, code in KNOWN:
      a, b = run(old, code), run(REPO, code)
      print("%s\n    pinned snapshot : %s\n    /repo (not repaired): %s"
            % (title, a, b))
      if not a.startswith("DEFECT") or not b.startswith("DEFECT"):
        bad += 1
    return 1 if bad else 0
  finally:
    shutil.rmtree(tmp, ignore_errors=True)


if __name__ == "__main__":
  sys.exit(main())
