#!/venv/bin/python
# -*- coding: utf-8 -*-
"""
Evaluate the independent seeded changes kept under /verif/seeded/<name>/
(patch.diff, demo.py, meta.json).  Everything runs on a scratch copy of /repo
(never /repo itself), removed right afterwards.

  tools/seeded.py [--dir D] [name ...] [--no-tests] [--tier quick]

For each change: (a) demo passes on the pristine tree and fails with the
change, (b) the set of failing tests of the existing suite is unchanged,
(c) the property's check reports a VIOLATION on the changed tree.
"""
import json
import os
import shutil
import subprocess
import sys
import tempfile
import time

HERE = os.path.dirname(os.path.dirname(os.path.abspath(__file__)))
REPO = "/repo"
PY = "/venv/bin/python"


def sh(cmd, env=None, cwd=None, timeout=3000):
  try:
    out = subprocess.run(cmd, env=env, cwd=cwd, stdout=subprocess.PIPE,
                         stderr=subprocess.STDOUT, timeout=timeout)
    return out.returncode, out.stdout.decode("utf-8", "replace")
  except subprocess.TimeoutExpired:
    return 124, "TIMEOUT"


def copy_repo(dst):
  shutil.copytree(REPO, dst, ignore=shutil.ignore_patterns(
    ".git", "__pycache__", "*.pyc", "images", "math", "*.egg-info"))


def failing_tests(root):
  env = dict(os.environ)
  env["PYTHONDONTWRITEBYTECODE"] = "1"
  rc, text = sh([PY, "-m", "pytest", "-q", "-p", "no:cacheprovider",
                 "--timeout=900", "--continue-on-collection-errors", "-rfE",
                 "audiolazy"], env=env, cwd=root)
  bad = sorted(set(ln.split(" - ")[0] for ln in text.splitlines()
                   if ln.startswith(("FAILED", "ERROR"))))
  tail = [ln for ln in text.splitlines() if " passed" in ln or " failed" in ln]
  return bad, (tail[-1] if tail else text[-300:])


def main():
  args = sys.argv[1:]
  d = os.path.join(HERE, "seeded")
  tier, names, tests = "quick", [], True
  i = 0
  while i < len(args):
    if args[i] == "--dir":
      d = args[i + 1]; i += 2
    elif args[i] == "--tier":
      tier = args[i + 1]; i += 2
    elif args[i] == "--no-tests":
      tests = False; i += 1
    else:
      names.append(args[i]); i += 1
  names = names or sorted(n for n in os.listdir(d)
                          if os.path.exists(os.path.join(d, n, "patch.diff")))
  base_fail = None
  if tests:
    tmp = tempfile.mkdtemp(prefix="verif-seed-base-")
    try:
      copy_repo(os.path.join(tmp, "repo"))
      base_fail, tail = failing_tests(os.path.join(tmp, "repo"))
      print("pristine suite: %d failing ids; %s" % (len(base_fail), tail))
    finally:
      shutil.rmtree(tmp, ignore_errors=True)
  rows = []
  for name in names:
    sd = os.path.join(d, name)
    meta = json.load(open(os.path.join(sd, "meta.json")))
    prop = meta.get("property", name[:3]).upper()
    tmp = tempfile.mkdtemp(prefix="verif-seed-")
    row = {"name": name, "property": prop}
    try:
      root = os.path.join(tmp, "repo")
      copy_repo(root)
      sh(["git", "init", "-q"], cwd=root)
      rc, text = sh(["git", "apply", "--whitespace=nowarn",
                     os.path.join(sd, "patch.diff")], cwd=root)
      if rc != 0:
        row["apply"] = "FAILED: " + text[-200:]
        rows.append(row)
        print(json.dumps(row))
        continue
      row["apply"] = "ok"
      # (a) demo both ways
      env = dict(os.environ)
      env["PYTHONDONTWRITEBYTECODE"] = "1"
      env["PYTHONPATH"] = REPO
      rc0, t0 = sh([PY, os.path.join(sd, "demo.py")], env=env, cwd=tmp,
                   timeout=300)
      env["PYTHONPATH"] = root
      rc1, t1 = sh([PY, os.path.join(sd, "demo.py")], env=env, cwd=tmp,
                   timeout=300)
      row["demo_pristine_rc"], row["demo_changed_rc"] = rc0, rc1
      row["demo_ok"] = (rc0 == 0 and rc1 != 0)
      # (b) test suite
      if tests:
        bad, tail = failing_tests(root)
        row["suite_same"] = (bad == base_fail)
        if bad != base_fail:
          row["suite_diff"] = sorted(set(bad) ^ set(base_fail))[:6]
      # (c) the check
      env = dict(os.environ)
      env["VERIF_REPO"] = root
      env["VERIF_REPLAY_DIR"] = os.path.join(tmp, "replays")
      t = time.time()
      rc, text = sh([os.path.join(HERE, "check"), prop, "--tier", tier,
                     "--no-evidence"], env=env, timeout=3000)
      row["check_rc"] = rc
      row["check_wall_s"] = round(time.time() - t, 1)
      viol = [ln.strip() for ln in text.splitlines()
              if ln.startswith(("VIOLATION", "  class="))]
      row["check"] = {0: "MISSED", 1: "DETECTED", 2: "HARNESS-ERROR"}.get(
        rc, "EXIT-%d" % rc)
      row["report"] = " ".join(viol)[:260] if viol else text[-260:]
    finally:
      shutil.rmtree(tmp, ignore_errors=True)
    rows.append(row)
    print(json.dumps(row))
    sys.stdout.flush()
  det = sum(1 for r in rows if r.get("check") == "DETECTED")
  print("detected %d of %d" % (det, len(rows)))


if __name__ == "__main__":
  main()
