#!/venv/bin/python
# -*- coding: utf-8 -*-
"""
Determinism self-test: the same VERIF_SEED must give the same per-run event
digests whatever the worker count, in a fresh interpreter, under another
PYTHONHASHSEED.  tools/determinism.py C17 [--runs N] [--seed S]
"""
import json
import os
import subprocess
import sys
import tempfile

HERE = os.path.dirname(os.path.dirname(os.path.abspath(__file__)))


def one(prop, runs, seed, workers, hashseed, path):
  env = dict(os.environ)
  env["PYTHONHASHSEED"] = str(hashseed)
  env["VERIF_SEED"] = str(seed)
  cmd = [os.path.join(HERE, "check"), prop, "--runs", str(runs), "--workers",
         str(workers), "--digests", path, "--wall", "3000"]
  out = subprocess.run(cmd, env=env, stdout=subprocess.PIPE,
                       stderr=subprocess.STDOUT)
  return out.returncode, out.stdout.decode("utf-8", "replace")


def main():
  args = sys.argv[1:]
  runs, seed = 2000, 0
  props = []
  i = 0
  while i < len(args):
    if args[i] == "--runs":
      runs = int(args[i + 1]); i += 2
    elif args[i] == "--seed":
      seed = int(args[i + 1]); i += 2
    else:
      props.append(args[i].upper()); i += 1
  bad = 0
  for prop in props:
    tmp = tempfile.mkdtemp(prefix="verif-det-")
    docs = []
    for n, (w, hs) in enumerate([(16, 0), (3, 11), (16, 0), (7, 987654)]):
      path = os.path.join(tmp, "d%d.json" % n)
      rc, text = one(prop, runs, seed, w, hs, path)
      if not os.path.exists(path):
        print(prop, "run failed:", rc, text[-500:])
        bad += 1
        break
      docs.append(json.load(open(path)))
      os.remove(path)
    os.rmdir(tmp)
    if len(docs) < 4:
      continue
    ref = docs[0]
    same = all(d == ref for d in docs[1:])
    ndiff = 0
    if not same:
      for d in docs[1:]:
        a = dict((json.dumps(k), v) for k, v in ref["digests"])
        b = dict((json.dumps(k), v) for k, v in d["digests"])
        diff = [k for k in a if a[k] != b.get(k)]
        ndiff = max(ndiff, len(diff))
        if diff:
          print("  differing runs (first 5):", diff[:5])
        if d["counters"] != ref["counters"]:
          ks = [k for k in ref["counters"]
                if ref["counters"][k] != d["counters"].get(k)]
          print("  differing counters:", ks[:10])
      bad += 1
    print("%s: %d runs x 4 configurations (workers 16/3/16/7, PYTHONHASHSEED "
          "0/11/0/987654): %s" % (prop, ref["runs"],
                                  "IDENTICAL digests, counters, coverage"
                                  if same else "DIFFERENT (%d runs)" % ndiff))
  return 1 if bad else 0


if __name__ == "__main__":
  sys.exit(main())
