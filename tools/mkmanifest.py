#!/usr/bin/env python3
# -*- coding: utf-8 -*-
""" Writes /verif/MANIFEST.json from the tables below and validates it. """
import json
import os
import sys

HERE = os.path.dirname(os.path.dirname(os.path.abspath(__file__)))

CLAIMED = {
  "C02": dict(
    engine="dataflow",
    technique="deterministic simulation: simulator-owned counting sources "
              "(EOF / endless / over-read-stall faults) under a seeded demand "
              "schedule, read-budget invariant against an executed "
              "minimal-read reference pipeline",
    text="Seeded exploration of stage pipelines (depth 1-3, fan-out through "
         "copy/tee/thub, stages built late on endpoints that already served "
         "demand, about 140 stage families incl. every operator method, "
         "filters with Stream parameters, synthesis stages, blockenizers, "
         "overlap-add/STFT also with iterable windows, mixer, resampler, "
         "record stream) over simulator-owned sources (finite with "
         "seeded EOF, endless, over-read stall; tagged / silence-first / "
         "signed values); after construction and after every demand step "
         "the reads of every source are bounded by a minimal-read reference "
         "pipeline driven by the same schedule. Samples pipelines and "
         "schedules; a clean batch is evidence, not proof.",
    note="Trusted: the minimal-read reference generators (one per stage "
         "family, DESIGN.md section 4 C02 table), the simulator kernel. "
         "Upper bound only: a lazier implementation is never flagged.",
    ref="4/C02"),
  "C03": dict(
    engine="dataflow",
    technique="deterministic simulation: seeded method histories and seeded "
              "interleaving of consumption among copies/tee outputs/thub "
              "uses over EOF-faulted sources, step-wise list reference model",
    text="Seeded histories of Stream methods (and operators / attribute "
         "access deriving new streams) over a pool of handles sharing "
         "simulator-owned sources, Stream subclasses, lazy_itertools streams "
         "and hubs made from raw iterables; which handle acts next is a scheduler "
         "decision; every return value / exception class is compared with a "
         "list model at once.",
    note="Trusted: the list model; documented ownership rule (operands handed "
         "to append/tee/thub are retired); float counts avoid exact .5 ties.",
    ref="4/C03"),
  "C06": dict(
    engine="dataflow",
    technique="deterministic simulation: coefficient streams as "
              "simulator-owned readers with seeded EOF instants and step-wise "
              "demand; read-once accounting + Fraction difference-equation "
              "reference model",
    text="Seeded time-varying filters (single, sum, difference, product, "
         "quotient, power, negation, scaling by constant or Stream, filter "
         "+- scalar, reuse through copy() or a shared denominator, variable "
         "a0, empty numerator with non-zero memory, finite constant streams, "
         "periodic and ControlStream coefficients, delays above 32 samples, "
         "a derived sibling filter sharing hub coefficients) "
         "run on simulator-owned input and coefficient readers; per output "
         "sample the accounting clause (each reader read exactly once; "
         "exactly N reads when only the input ends after N), the end clause "
         "(output ends at the first reader EOF), the algebra clause "
         "(rational-function equality with the operands at every n) and the "
         "difference equation in exact arithmetic are checked.",
    note="Trusted: the Fraction difference-equation model run on the "
         "filter's own coefficient sequences; integer constants only.",
    ref="4/C06"),
  "C15": dict(
    engine="dataflow",
    technique="deterministic simulation (history-only, degenerate: no "
              "schedule or fault dimension): seeded update histories against "
              "a key-group reference model with cross-invariants after every "
              "step",
    text="Seeded operation histories over small key/value universes with "
         "equal-but-distinct values, compared with a key-group model through "
         "the whole public API after every step. Sampling, not the exhaustive "
         "half of the quantifier.",
    note="Trusted: the key-group model. No fault kinds exist for this "
         "property (sequential, no I/O) - said so in the evidence.",
    ref="4/C15"),
  "C16": dict(
    engine="dataflow+threads",
    technique="deterministic simulation: seeded histories interleaving "
              "add()/value assignment with consumption (exact event-list "
              "model), and the same with a consumer thread under the seeded "
              "thread scheduler (linearization-window oracle)",
    text="Seeded mixer/ControlStream histories with EOF-faulted events (lists, "
         "generators, hubs, Stream subclasses, nested mixers) and late "
         "additions checked sample by sample against an exact rational "
         "event-list model; threaded part checks existence of a "
         "linearization under seeded pre-emption.",
    note="Trusted: the event-list model; half-sample ties accept both "
         "neighbours; exact value types so summation order cannot matter.",
    ref="4/C16"),
  "C17": dict(
    engine="threads",
    technique="deterministic simulation with fault injection: real "
              "AudioIO/AudioThread code on real threads released one at a "
              "time by a seeded scheduler (lock/event/join/device/line/"
              "bytecode yield points), fake PyAudio backend with device-stall, "
              "thread-stall and late-start faults; device "
              "history safety oracle + bounded shutdown liveness",
    text="Seeded search over thread schedules (random walk, sticky, "
         "run-to-block, PCT, line and bytecode-instruction pre-emption, "
         "hot-line window holding), control histories, device stalls, thread "
         "stalls (also while close() runs) and late thread starts for 1-3 "
         "players (lists, generators, endless streams, hubs, deques, arrays, "
         "an input device looped to the output) plus record streams; safety over the "
         "recorded device history of a state-tracking fake PortAudio "
         "(framing decoded with the arguments the device was opened with, "
         "content, order, no write to a stopped/closed stream, promptness "
         "after stop), shutdown post-conditions, liveness as close() "
         "returning within a step bound once faults stop; deadlocks reported "
         "with every thread's blocking point.",
    note="Trusted: SimLock/SimEvent equivalence to threading.Lock/Event, the "
         "fake PyAudio call interface, fairness cap. Pre-emption granularity: "
         "source line, or bytecode instruction in part of the runs.",
    ref="4/C17"),
}

NOT_APPLICABLE = {
  "C01": "pure function of operands (element-wise equation); no schedule, "
         "clock, fault or shared state in the statement - its lazy-read side "
         "is decided under C02",
  "C04": "pure function of (coefficients, input, memory): exact arithmetic "
         "identity, nothing to schedule or fault",
  "C05": "algebraic identities between immutable rational-function values",
  "C07": "ring / evaluation identities over immutable Poly values",
  "C08": "block sequence is a pure function of (sequence, size, hop, pad); "
         "the read pattern of blocks is decided under C02",
  "C09": "pure function of (blocks, window, options); on-demand behaviour is "
         "decided under C02",
  "C10": "linear-algebra identities on finite blocks",
  "C11": "pure recursion identities and a pole-location equivalence",
  "C12": "numeric identities between pure functions",
  "C13": "numeric design contracts of pure constructors",
  "C14": "closed forms and import-time wiring fixed once at import",
  "C18": "byte-exact codecs are pure functions of (samples, format); the "
         "statement is silent on torn/short/failing reads so injected disk "
         "faults would have no oracle",
  "C19": "closed-form sequences; randomness constrained by range only",
  "C20": "pure sample-wise formulas; one-read-per-output is decided under C02",
}

PENDING = "claimed in DESIGN.md, check not registered yet (under construction)"


def main():
  built = [a.upper() for a in sys.argv[1:]] or sorted(CLAIMED)
  checks = []
  for pid in sorted(CLAIMED):
    if pid not in built:
      continue
    c = CLAIMED[pid]
    checks.append({
      "property_id": pid,
      "quick_cmd": "./check %s --tier quick" % pid,
      "thorough_cmd": "./check %s --tier thorough" % pid,
      "evidence_file": "/verif/evidence/%s.json" % pid,
      "replay_cmd_template": "./check %s --replay {path}" % pid,
      "engine": c["engine"],
      "level_claimed": {"category": "exploration", "text": c["text"],
                        "design_ref": "DESIGN.md section " + c["ref"]},
      "level_note": c["note"],
      "technique": c["technique"],
    })
  na = [{"property_id": k, "reason": "not applicable to deterministic "
         "simulation: " + v} for k, v in sorted(NOT_APPLICABLE.items())]
  for pid in sorted(CLAIMED):
    if pid not in built:
      na.append({"property_id": pid, "reason": PENDING})
  na.sort(key=lambda d: d["property_id"])
  doc = {
    "version": 1,
    "setup_cmd": "/venv/bin/python tools/selfcheck.py",
    "hooks": {
      "guard": "DANILOBELLINI_AUDIOLAZY_VERIF",
      "enable": "no source hooks exist: every seam is already in the code "
                "(sys.modules pyaudio/_portaudio, module global "
                "lazy_io.threading, AudioThread.start/join/run class "
                "attributes, sys.settrace, iterator arguments); the guard "
                "name is reserved and unused",
      "baseline_off_cmd": "cd /repo && /venv/bin/python -m pytest -q -p "
                          "no:cacheprovider --timeout=900 "
                          "--continue-on-collection-errors",
      "source_commits": [],
      "add_only": True,
    },
    "engines": [
      {"name": "threads", "path": "sim/threads.py",
       "serves_properties": ["C17", "C16"],
       "kind_free_text": "deterministic thread simulator: baton-passing "
                         "real threads, simulated Lock/Event/join, "
                         "sys.settrace line pre-emption, fake PyAudio"},
      {"name": "dataflow", "path": "sim/dataflow.py",
       "serves_properties": ["C02", "C03", "C06", "C15", "C16"],
       "kind_free_text": "deterministic dataflow simulator: simulator-owned "
                         "sources with read accounting and EOF/stall faults, "
                         "seeded demand schedule, reference models"},
    ],
    "checks": checks,
    "not_applicable": na,
    "notes": "Technique family: deterministic simulation with fault "
             "injection. Exit codes: 0 pass, 1 VIOLATION, 2 HARNESS-ERROR "
             "(machinery fault, never a violation). Known findings "
             "(genuine defects recorded, not repaired) are listed in "
             "/verif/known_findings.json with status=known: the C17 check "
             "prints one KNOWN-FINDING line on the unchanged tree "
             "(close(wait=True) never returns for a player the history left "
             "paused) and exits 0; entries with status=fixed (17 repairs "
             "committed to /repo as fix: commits) suppress nothing. See "
             "DESIGN.md (9.3, 9.12-9.20).",
  }
  path = os.path.join(HERE, "MANIFEST.json")
  with open(path, "w") as f:
    json.dump(doc, f, indent=1)
    f.write("\n")
  try:
    import jsonschema
    schema = json.load(open("/root/.vp/MANIFEST.schema.json"))
    jsonschema.validate(doc, schema)
    print("MANIFEST.json valid; checks:", [c["property_id"] for c in checks])
  except ImportError:
    print("MANIFEST.json written (jsonschema not importable here)")


if __name__ == "__main__":
  main()
