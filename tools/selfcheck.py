#!/venv/bin/python
# -*- coding: utf-8 -*-
""" setup_cmd: nothing to build (pure Python); verify the pieces import. """
import os
import sys
HERE = os.path.dirname(os.path.dirname(os.path.abspath(__file__)))
sys.path.insert(0, HERE)
sys.dont_write_bytecode = True
from sim import kernel  # noqa: E402
kernel.import_repo()
os.makedirs(os.path.join(HERE, "evidence"), exist_ok=True)
os.makedirs(os.path.join(HERE, "replays"), exist_ok=True)
print("setup ok: python %s, audiolazy from %s" % (sys.version.split()[0],
                                                 kernel.REPO_DIR))
# informational: the fake backend + C17 oracle against real, unsimulated threads
import subprocess
try:
  out = subprocess.run([sys.executable,
                        os.path.join(HERE, "tools", "realthreads_smoke.py")],
                       stdout=subprocess.PIPE, stderr=subprocess.STDOUT,
                       timeout=120)
  print(out.stdout.decode("utf-8", "replace").strip().splitlines()[-1])
except Exception as exc:     # never fatal for the setup
  print("real-thread smoke skipped: %r" % (exc,))
